import os, sys
os.environ["OMP_NUM_THREADS"]="1"; os.environ["OPENBLAS_NUM_THREADS"]="1"
import numpy as np, quaternion, io, contextlib, time
import quatica, quatica.solver as S
from quatica.utils import quat_matmat, quat_frobenius_norm
rng=np.random.default_rng(3)
n=3
A=quaternion.as_quat_array(rng.standard_normal((n,n,4))); b=quaternion.as_quat_array(rng.standard_normal((n,1,4)))
mon=sys.monitoring; TID=mon.DEBUGGER_ID
mon.use_tool_id(TID,"qsim")
state={'k':0,'at':None,'active':False,'lines':[]}
ROOT=os.path.dirname(quatica.__file__)
def on_line(code,lineno):
    if not state['active']: return
    if not code.co_filename.startswith(ROOT): return mon.DISABLE
    state['k']+=1
    if state['at'] is not None and state['k']==state['at']:
        state['hit']=(os.path.basename(code.co_filename),code.co_name,lineno)
        raise MemoryError('injected@%d'%state['k'])
mon.register_callback(TID,mon.events.LINE,on_line)
mon.set_events(TID,mon.events.LINE)
def run(at):
    state.update(k=0,at=at,active=True,hit=None); mon.restart_events()
    try:
        with contextlib.redirect_stdout(io.StringIO()):
            x,info=S.QGMRESSolver(tol=1e-10,preconditioner='left_lu').solve(A,b)
        state['active']=False
        r=quat_frobenius_norm(quat_matmat(A,x)-b)/quat_frobenius_norm(b)
        return ('ret',bool(info['converged']),float(r))
    except BaseException as e:
        state['active']=False
        return ('exc',type(e).__name__,str(e))
t=time.time(); base=run(None); total=state['k']; print('baseline',base,'line events',total,time.time()-t)
t=time.time()
bad=[];esc=0;swallowed=0
for at in range(1,total+1):
    r=run(at)
    if r[0]=='exc': esc+=1
    else:
        swallowed+=1
        if r[1] and r[2]>1e-6: bad.append((at,state['hit'],r))
print('escaped',esc,'swallowed',swallowed,'bad',len(bad),time.time()-t)
for x in bad[:10]: print(x)
