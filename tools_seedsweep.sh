#!/bin/bash
# Runs every quick check for a range of VERIF_SEED values; prints one line per (check, seed).
# usage: tools_seedsweep.sh <first> <last>
cd "$(dirname "$0")"
for seed in $(seq $1 $2); do
  for p in C04 C12 C13 C14 C19 C20; do
    out=$(VERIF_SEED=$seed /venv/bin/python -B -m qsim check $p --tier quick 2>&1)
    code=$?
    echo "seed=$seed $p exit=$code $(echo "$out" | grep -c '^VIOLATION') violations; $(echo "$out" | grep 'runs in' | cut -c1-120)"
    if [ $code -ne 0 ]; then echo "$out" | grep -v WARNING | grep -v '^KNOWN' | tail -12 | cut -c1-400; fi
  done
done
