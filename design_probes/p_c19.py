import os, sys, io, contextlib, collections
os.environ["OMP_NUM_THREADS"]="1"; os.environ["OPENBLAS_NUM_THREADS"]="1"
import numpy as np, quaternion, warnings
warnings.simplefilter("ignore")
import quatica.utils as U
def chi(A):
    f=quaternion.as_float_array(A); C=f[...,0]+1j*f[...,1]; D=f[...,2]+1j*f[...,3]
    return np.block([[C,D],[-D.conj(),C.conj()]])
def unchi(M):
    m=M.shape[0]//2;n=M.shape[1]//2
    C=M[:m,:n];D=M[:m,n:]
    return quaternion.as_quat_array(np.stack([C.real,C.imag,D.real,D.imag],axis=-1))
def polar(rng,n):
    G=chi(quaternion.as_quat_array(rng.standard_normal((n,n,4)))); Uu,s,Vh=np.linalg.svd(G)
    return G@np.linalg.inv((Vh.conj().T*s)@Vh)
worst=collections.defaultdict(float); fails=collections.Counter(); ex=[]
for seed in range(600):
    rng=np.random.default_rng(seed)
    n=int(rng.integers(1,9)); sign=[1,-1][seed%2]; scale=10.0**rng.integers(-6,7)
    gap=rng.uniform(0.1,0.8)
    lam=np.concatenate([[1.0],rng.uniform(-gap,gap,size=n-1)])*sign*scale
    if n>1 and rng.random()<0.5: lam[1]=-sign*gap*scale   # mixed sign at the gap edge
    D=np.diag(np.concatenate([lam,lam])).astype(complex)
    P=polar(rng,n); cA=P@D@P.conj().T; cA=0.5*(cA+cA.conj().T); A=unchi(cA)
    np.random.seed(seed); 
    for _ in range(int(rng.integers(0,50))): np.random.randn()
    v,ev=U.power_iteration(A,max_iterations=2000,tol=1e-10,return_eigenvalue=True)
    cv=chi(v)
    nv=np.linalg.norm(cv)/np.sqrt(2)
    relev=abs(ev-abs(lam[0]))/abs(lam[0])
    res=np.linalg.norm(cA@cv-sign*ev*cv)/np.sqrt(2)/abs(lam[0])
    key='pos' if sign>0 else 'neg'
    worst[key+'_ev']=max(worst[key+'_ev'],relev); worst[key+'_res']=max(worst[key+'_res'],res); worst['norm']=max(worst['norm'],abs(nv-1))
    if ev>abs(lam[0])*(1+1e-10): fails['bound']+=1
    if relev>1e-8 or res>1e-4: fails['conv_'+key]+=1; ex.append((seed,n,sign,gap,relev,res))
    # tiny budgets
    v1=U.power_iteration(A,max_iterations=1); 
    if abs(np.linalg.norm(chi(v1))/np.sqrt(2)-1)>1e-12: fails['norm1']+=1
    # nonhermitian variant on hermitian input
    q,l,r=U.power_iteration_nonhermitian(A)
    if abs(complex(l).imag)>0: fails['nh_imag']+=1
print(dict(worst)); print(dict(fails)); [print(e) for e in ex[:10]]
# non-Hermitian boundedness
fails=collections.Counter(); mx=0
for seed in range(300):
    rng=np.random.default_rng(seed); n=int(rng.integers(1,8))
    A=quaternion.as_quat_array(rng.standard_normal((n,n,4))); np.random.seed(seed)
    v,ev=U.power_iteration(A,max_iterations=int(rng.choice([1,3,50,300])),return_eigenvalue=True)
    s2=np.linalg.svd(chi(A),compute_uv=False)[0]
    mx=max(mx,ev/s2)
    if ev>s2*(1+1e-10): fails['bound']+=1
    if abs(np.linalg.norm(chi(v))/np.sqrt(2)-1)>1e-12: fails['norm']+=1
    q,l,r=U.power_iteration_nonhermitian(A,seed=seed,max_iterations=200)
    if abs(np.linalg.norm(chi(q.reshape(n,1)))/np.sqrt(2)-1)>1e-10: fails['nh_norm']+=1
print('nonherm',dict(fails),'max ev/s2',mx)
