"""qsim - deterministic simulation with fault injection for vleplat/QuatIca.

See /verif/DESIGN.md.  Nothing in this package imports the library under test at
import time; that happens in qsim.world, inside worker processes only.
"""

import os

# Must be decided before NumPy is imported anywhere in this interpreter: one BLAS
# thread keeps fork() safe and results bit-reproducible (DESIGN 2.1, 2.5).
for _v in ("OMP_NUM_THREADS", "OPENBLAS_NUM_THREADS", "MKL_NUM_THREADS"):
    os.environ[_v] = "1"

VERIF_ROOT = os.path.dirname(os.path.dirname(os.path.abspath(__file__)))
REPO_ROOT = os.environ.get("QSIM_REPO", "/repo")
