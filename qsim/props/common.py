"""Shared pieces of the per-property modules."""

import json
import math
import random

import numpy as np

from .. import gens, qalg


def sub_rng(seed, *salt):
    """Independent python PRNG stream derived from the run seed (never NumPy's global)."""
    return random.Random("qsim:" + ":".join(str(s) for s in (seed,) + salt))


def key(spec):
    return json.dumps(spec, sort_keys=True)


def V(oracle, step, detail, **extra):
    d = {"oracle": oracle, "step": step, "detail": detail}
    d.update(extra)
    return d


def fnum(x):
    try:
        return float(x)
    except Exception:  # noqa: BLE001
        return float("nan")


def finite(x):
    try:
        return bool(np.all(np.isfinite(x)))
    except Exception:  # noqa: BLE001
        return False


def is_qmat(x, shape=None):
    return (isinstance(x, np.ndarray) and x.dtype == np.quaternion
            and (shape is None or tuple(x.shape) == tuple(shape)))


class BaseHooks:
    def __init__(self, trace):
        self.trace = trace
        self._built = {}

    def dense(self, spec):
        """Harness-side dense value of an argument spec (storage flag ignored)."""
        k = key(spec)
        if k not in self._built:
            self._built[k] = gens.build(spec)
        return self._built[k]

    def after_step(self, ex, i, step, rec, viol):
        pass

    def after_run(self, ex, viol):
        pass

    def ref_requests(self, ex):
        return []

    def stats(self, ex):
        return {}


def ref_request(ex, i, step, states):
    """Pristine-world request for step i (call on a shared object, or fn)."""
    req = {"step": {k: v for k, v in step.items() if k in ("k", "obj", "meth", "fn", "args", "kwargs")},
           "rng_state": states.get(i)}
    if "obj" in step:
        cls, cfg = getattr(ex, "cfg_at", {}).get(i) or ex.objcfg[step["obj"]]
        req["cls"] = cls
        req["cfg"] = cfg
    pre = []
    for sp in list(step.get("args", [])) + list((step.get("kwargs") or {}).values()):
        if isinstance(sp, dict) and sp.get("gen") == "result":
            ps = ex.trace["steps"][sp["of"]]
            pre.append({"index": sp["of"], "rng_state": states.get(sp["of"]),
                        "step": {k: v for k, v in ps.items() if k in ("k", "fn", "args", "kwargs")}})
    if pre:
        req["prelude"] = pre
    return req


def logspace_sigma(R, k, cond):
    """k singular values in [1/cond, 1], largest 1, smallest 1/cond (k>=2), rest log-uniform."""
    if k <= 0:
        return []
    if k == 1:
        return [1.0]
    mid = sorted((10 ** R.uniform(-math.log10(cond), 0.0) for _ in range(k - 2)), reverse=True)
    return [1.0] + mid + [1.0 / cond]


def cluster_sigma(R, k, cond):
    """k singular values: a cluster in [0.5, 1] (largest 1) and ONE small value 1/cond - the
    spectrum on which Krylov methods plateau until the cluster is resolved."""
    if k <= 2 or cond <= 2.0:
        return logspace_sigma(R, k, cond)
    mid = sorted((R.uniform(0.5, 1.0) for _ in range(k - 2)), reverse=True)
    return [1.0] + mid + [1.0 / cond]


FIXED_CLOCKS = [[0.0], [1e-3, -3600.0, 1e6], [1e6], [-1.0], [5e-4, 0.0, 0.0, 7200.0], [1e-9]]


def rand_clock(R):
    """A clock script (increments returned by successive reads, cyclic): one of the fixed ones
    (frozen, jumping back and forth, huge steps, running backwards, coarse) or a LATE event - a
    normal clock that makes one big step (suspend / NTP correction, forwards or backwards) after
    k reads, so that a deadline or rate limiter trips in the middle of an iteration."""
    if R.random() < 0.5:
        return R.choice(FIXED_CLOCKS)
    k = R.choice([R.randint(0, 8), R.randint(0, 8), R.randint(0, 25), R.randint(0, 60)])   # mostly early reads
    jump = R.choice([7200.0, 1e5, -7200.0, 40.0, 100.0, 4000.0, 1e9])
    return [1e-3] * k + [jump] + [1e-3] * 400


def round_sig(x, n=6):
    if x == 0 or not math.isfinite(x):
        return x
    return float(f"%.{n}g" % x)


__all__ = ["sub_rng", "key", "V", "fnum", "finite", "is_qmat", "BaseHooks", "ref_request",
           "logspace_sigma", "cluster_sigma", "rand_clock", "round_sig", "qalg", "gens", "np"]
