"""C20 - out-of-domain arguments are rejected loudly, before anything is modified; no
in-domain boundary argument is rejected.

Whether a cell raises is a table look-up (enumerated exhaustively).  What the simulator
adds is failure atomicity: every cell is injected as a *bad request* at several
positions of seeded histories (first op of a world, between two valid calls on a shared
solver, between a seeded construction / re-seed and the next randomised call) and the
world after is compared with the world before - caller arrays, solver state, position of
the shared RNG stream - and every later call with the pristine world.  DESIGN 3, C20.
"""

import json

from .common import BaseHooks, V, ref_request, sub_rng

PROP = "C20"
WORLDS_QUICK = ("pkg", "flat")
WORLDS_THOROUGH = ("pkg", "flat", "pkg_then_flat", "flat_then_pkg")

RULE = ("one evaluation = one short history containing exactly one table cell: an out-of-domain request (must raise, "
        "leave arguments / solver state / RNG position untouched, and leave later calls equal to the pristine world) "
        "or an in-domain boundary request (must not raise), issued at one of three positions; the table "
        "(entry point x argument class) is enumerated completely; distinct = (cell, position, world); every cell "
        "is non-trivial by construction (it carries a request at the edge of or outside an operation's domain)")


def G(m, n, seed=1):
    return {"gen": "gauss", "m": m, "n": n, "seed": seed}


def SP(s):
    return dict(s, storage="sparse")


TALL, WIDE, ROW, COL, ONE = G(5, 3, 2), G(3, 5, 3), G(1, 4, 4), G(4, 1, 5), G(1, 1, 6)
SQ = G(4, 4, 7)
HERM = {"gen": "herm", "n": 4, "lam": [2.0, 1.0, -0.5, 0.25], "seed": 8}
HERM1 = {"gen": "herm", "n": 1, "lam": [1.5], "seed": 9}
HERM2 = {"gen": "herm", "n": 2, "lam": [1.5, -0.5], "seed": 10}
REAL = {"gen": "real", "m": 4, "n": 4, "seed": 11}
REALSYM = {"gen": "val", "v": None}
CPLX = {"gen": "complex", "m": 4, "n": 4, "seed": 12}
SPARSE = SP(SQ)
T3 = {"gen": "qnd", "shape": [2, 3, 4], "seed": 13}
T3R = {"gen": "realnd", "shape": [2, 3, 4], "seed": 14}
T4 = {"gen": "qnd", "shape": [2, 3, 2, 2], "seed": 15}
T111 = {"gen": "qnd", "shape": [1, 1, 1], "seed": 16}
IMG = {"gen": "realnd", "shape": [4, 4, 4], "seed": 17}
PSF = {"gen": "val", "v": None}

SOLVERS = {
    "gmres": ("solver.QGMRESSolver", {"tol": 1e-8}, "solve", [SQ, G(4, 1, 21)]),
    "gmres_lu": ("solver.QGMRESSolver", {"tol": 1e-8, "preconditioner": "left_lu"}, "solve", [SQ, G(4, 1, 21)]),
    "rsp": ("solver.RandomizedSketchProjectPseudoinverse", {"block_size": 2, "max_iter": 8, "seed": 5},
            "compute", [TALL]),
    "hybrid": ("solver.HybridRSPNewtonSchulz", {"r": 2, "p": 2, "T": 2, "max_iter": 6, "seed": 5}, "compute", [TALL]),
    "cgne": ("solver.CGNEQSolver", {"max_iter": 10, "preconditioner_rank": 1, "seed": 5}, "compute", [TALL]),
    "deep": ("solver.DeepLinearNewtonSchulz", {"max_iter": 1}, "compute", [TALL, [3, 2]]),
    "ns": ("solver.NewtonSchulzPseudoinverse", {"max_iter": 4}, "compute", [TALL]),
    "hon": ("solver.HigherOrderNewtonSchulzPseudoinverse", {"max_iter": 3}, "compute", [TALL]),
}


def _cells():
    bad, good = [], []

    def B(cid, fn, args, kwargs=None, argclass=""):
        bad.append({"id": cid, "fn": fn, "args": args, "kwargs": kwargs or {}, "class": argclass})

    def BM(cid, solver, meth, args, argclass=""):
        bad.append({"id": cid, "solver": solver, "meth": meth, "args": args, "class": argclass})

    def OK(cid, fn, args, kwargs=None):
        good.append({"id": cid, "fn": fn, "args": args, "kwargs": kwargs or {}})

    def OKM(cid, solver, meth, args):
        good.append({"id": cid, "solver": solver, "meth": meth, "args": args})

    # --- utils: dtype / shape / option guards
    for nm in ("induced_matrix_norm_1", "induced_matrix_norm_inf"):
        B(f"{nm}:real", f"utils.{nm}", [REAL], argclass="real dtype")
        B(f"{nm}:complex", f"utils.{nm}", [CPLX], argclass="complex dtype")
        B(f"{nm}:sparse", f"utils.{nm}", [SPARSE], argclass="sparse where dense required")
    # scalar multiplication of a SparseQuaternionMatrix is defined for real scalars only; @ for
    # matrices only - every other operand type is rejected (TypeError / ValueError)
    for opn in ("__mul__", "__rmul__"):
        for tag_, v_ in (("2j", {"gen": "cval", "re": 0.0, "im": 2.0}), ("1+1j", {"gen": "cval", "re": 1.0, "im": 1.0}),
                         ("str", "x"), ("None", None), ("quat", {"gen": "qscalar", "q": [1.0, 2.0, 3.0, 4.0]}),
                         ("list", {"gen": "list", "items": [1, 2]}), ("array", REAL)):
            B(f"sparse{opn}:{tag_}", f"utils.SparseQuaternionMatrix.{opn}", [SPARSE, v_], argclass="wrong operand type")
    for tag_, v_ in (("2j", {"gen": "cval", "re": 0.0, "im": 2.0}), ("float", 2.0), ("int", 3), ("str", "x"), ("None", None),
                     ("wide", {"gen": "gauss", "m": 3, "n": 5, "seed": 4})):
        B(f"sparse__matmul__:{tag_}", "utils.SparseQuaternionMatrix.__matmul__", [SPARSE, v_],
          argclass="wrong operand type" if tag_ != "wide" else "inconsistent shape pair")
    for tag_, v_ in (("float", 2.0), ("int", 3), ("zero", 0.0), ("neg", -1.5)):
        OK(f"in:sparse__mul__:{tag_}", "utils.SparseQuaternionMatrix.__mul__", [SPARSE, v_])
        OK(f"in:sparse__rmul__:{tag_}", "utils.SparseQuaternionMatrix.__rmul__", [SPARSE, v_])
    B("spectral_norm_2:real", "utils.spectral_norm_2", [REAL], argclass="real dtype")
    B("spectral_norm_2:sparse", "utils.spectral_norm_2", [SPARSE], argclass="sparse where dense required")
    # unknown option values of every flavour a weakened test could let through: other
    # numbers, falsy values, wrong case, padded / prefixed strings, None where no default exists
    for o in ("nuc", 3, -1, -2, 0, 0.0, "", False, 1.5, "FRO", "Fro", "f", "1", "2", "Inf", "infinity", "-inf"):
        B(f"matrix_norm:ord_{o!r}", "utils.matrix_norm", [SQ, o], argclass="unknown option")
    B("matrix_norm:ord_-inf", "utils.matrix_norm", [SQ, {"gen": "scale_val", "v": "-inf"}], argclass="unknown option")
    B("matrix_norm:real_ord1", "utils.matrix_norm", [REAL, 1], argclass="real dtype")
    B("matrix_norm:real_ord2", "utils.matrix_norm", [REAL, 2], argclass="real dtype")
    B("matrix_norm:real_ordinf", "utils.matrix_norm", [REAL, "inf"], argclass="real dtype")
    # routines that reach the quaternion-dtype guard of real_expand (or an own one) for every
    # shape: non-quaternion input of every dtype at the regular and at the boundary shapes
    # (a fast path for 1 x 1 / single rows / single columns must not bypass the guard)
    for shp_nm, (mm_, nn_) in (("4x4", (4, 4)), ("1x1", (1, 1)), ("1x3", (1, 3)), ("3x1", (3, 1))):
        for dt_nm, gen_ in (("real", "real"), ("complex", "complex"), ("int", "realint")):
            M_ = {"gen": gen_, "m": mm_, "n": nn_, "seed": 70 + mm_ + nn_}
            cls_ = {"real": "real dtype", "complex": "complex dtype", "int": "integer dtype"}[dt_nm]
            B(f"rank:{dt_nm}_{shp_nm}", "utils.rank", [M_], argclass=cls_)
            B(f"qr_qua:{dt_nm}_{shp_nm}", "decomp.qsvd.qr_qua", [M_], argclass=cls_)
            B(f"classical_qsvd_full:{dt_nm}_{shp_nm}", "decomp.qsvd.classical_qsvd_full", [M_], argclass=cls_)
            B(f"classical_qsvd:{dt_nm}_{shp_nm}", "decomp.qsvd.classical_qsvd", [M_, 1], argclass=cls_)
            for fn_ in ("quat_null_space", "quat_null_right", "quat_null_left", "quat_kernel"):
                B(f"{fn_}:{dt_nm}_{shp_nm}", f"utils.{fn_}", [M_], argclass=cls_)
            if mm_ == nn_:
                B(f"det_dieudonne:{dt_nm}_{shp_nm}", "utils.det", [M_, "Dieudonne"], argclass=cls_)
    B("real_expand:real", "utils.real_expand", [REAL], argclass="real dtype")
    B("real_expand:complex", "utils.real_expand", [CPLX], argclass="complex dtype")
    B("real_contract:shape", "utils.real_contract", [{"gen": "real", "m": 8, "n": 8, "seed": 3}, 3, 2],
      argclass="inconsistent shape pair")
    B("real_contract:shape2", "utils.real_contract", [{"gen": "real", "m": 8, "n": 12, "seed": 3}, 2, 2],
      argclass="inconsistent shape pair")
    for nm, M in (("tall", TALL), ("wide", WIDE), ("row", ROW), ("2x1", G(2, 1, 41)), ("1x2", G(1, 2, 42)),
                  ("3x2", G(3, 2, 43)), ("2x3", G(2, 3, 44))):
        B(f"ishermitian:{nm}", "utils.ishermitian", [M], argclass="non-square")
        B(f"det_dieudonne:{nm}", "utils.det", [M, "Dieudonne"], argclass="non-square")
        B(f"det_moore:{nm}", "utils.det", [M, "Moore"], argclass="non-square")
        B(f"power_iteration:{nm}", "utils.power_iteration", [M], argclass="non-square")
        B(f"adjoint:{nm}", "utils.quaternion_to_complex_adjoint", [M], argclass="non-square")
        B(f"power_iteration_nonhermitian:{nm}", "utils.power_iteration_nonhermitian", [M], {"max_iterations": 5},
          argclass="non-square")
        B(f"eigendecomposition:{nm}", "decomp.quaternion_eigendecomposition", [M], argclass="non-square")
        B(f"eigenvalues:{nm}", "decomp.quaternion_eigenvalues", [M], argclass="non-square")
        B(f"eigenvectors:{nm}", "decomp.quaternion_eigenvectors", [M], argclass="non-square")
        B(f"tridiagonalize:{nm}", "decomp.tridiagonalize", [M], argclass="non-square")
        B(f"hessenbergize:{nm}", "decomp.hessenberg.hessenbergize", [M], argclass="non-square")
        B(f"schur:{nm}", "decomp.quaternion_schur", [M], {"max_iter": 3}, argclass="non-square")
        B(f"schur_pure:{nm}", "decomp.quaternion_schur_pure", [M], {"max_iter": 3}, argclass="non-square")
        B(f"schur_pure_implicit:{nm}", "decomp.quaternion_schur_pure_implicit", [M], {"max_iter": 3}, argclass="non-square")
        B(f"schur_unified:{nm}", "decomp.quaternion_schur_unified", [M], {"max_iter": 3}, argclass="non-square")
        B(f"schur_experimental:{nm}", "decomp.schur.quaternion_schur_experimental", [M], {"max_iter": 3}, argclass="non-square")
    for d in ("foo", "", "moore", "MOORE", "Moore ", "M", "dieudonne", "Dieudonn", "study", None, 0):
        B(f"det:type_{d!r}", "utils.det", [HERM, d], argclass="unknown option")
    B("det:study", "utils.det", [SQ, "Study"], argclass="unsupported option (NotImplementedError)")
    B("adjoint:real", "utils.quaternion_to_complex_adjoint", [REAL], argclass="real dtype")
    B("adjoint:complex", "utils.quaternion_to_complex_adjoint", [CPLX], argclass="complex dtype")
    for ax in ("y", "z", "X", "", None, 0):
        B(f"adjoint:axis_{ax!r}", "utils.quaternion_to_complex_adjoint", [SQ], {"axis": ax}, argclass="unknown option")
    for ax in ("y", "z", "X", "", None, 0, "w", "xy", "i"):
        B(f"power_iteration_nonhermitian:axis_{ax!r}", "utils.power_iteration_nonhermitian", [SQ],
          {"subfield_axis": ax, "max_iterations": 5}, argclass="unknown option")
    for fn in ("quat_null_space", "quat_kernel"):
        for sd in ("up", "Right", "RIGHT", "", "r", "l", " left", None, 0, "both"):
            B(f"{fn}:side_{sd!r}", f"utils.{fn}", [SQ], {"side": sd}, argclass="unknown option")
    # --- decomp: dtype, Hermitian, size, zero pivot
    for nm in ("quaternion_modulus", "quaternion_triu", "quaternion_tril", "quaternion_lu"):
        B(f"{nm}:real", f"decomp.{nm}", [REAL], argclass="real dtype")
        B(f"{nm}:complex", f"decomp.{nm}", [CPLX], argclass="complex dtype")
    B("quaternion_lu:sparse", "decomp.quaternion_lu", [SPARSE], argclass="sparse where dense required")
    B("quaternion_lu:zero_matrix", "decomp.quaternion_lu", [{"gen": "zeros", "m": 3, "n": 3}], argclass="zero pivot")
    B("quaternion_lu:zero_column", "decomp.quaternion_lu",
      [{"gen": "psvd", "m": 3, "n": 3, "sigma": [0.0, 0.0, 0.0], "seed": 1}], {"return_p": True}, argclass="zero pivot")
    # non-Hermitian by a margin, in every way a Hermitian test can be weakened: generic,
    # only an imaginary part on the diagonal, only one off-diagonal entry, skew-Hermitian,
    # symmetric-but-not-conjugated, only the last row/column, only the real part asymmetric
    def ent(i, j, q):
        return {"gen": "entry", "m": 4, "n": 4, "i": i, "j": j, "q": q}
    SKEW = {"gen": "add", "a": SQ, "b": {"gen": "scale", "c": -1.0, "of": {"gen": "T", "of": SQ}}}
    nonherm = {
        "generic": SQ,
        "imag_diag": {"gen": "add", "a": HERM, "b": ent(1, 1, [0, 0.5, 0, 0])},
        "imag_diag_k": {"gen": "add", "a": HERM, "b": ent(0, 0, [0, 0, 0, 0.5])},
        "one_offdiag": {"gen": "add", "a": HERM, "b": ent(0, 2, [0.5, 0, 0, 0])},
        "one_offdiag_lower": {"gen": "add", "a": HERM, "b": ent(3, 1, [0, 0, 0.5, 0])},
        "last_corner": {"gen": "add", "a": HERM, "b": ent(3, 0, [0.5, 0.5, 0, 0])},
        "skew": SKEW,
        "symmetric_not_conj": {"gen": "add", "a": HERM,
                               "b": {"gen": "add", "a": ent(0, 1, [0, 0.5, 0, 0]), "b": ent(1, 0, [0, 0.5, 0, 0])}},
    }
    # the same classes instantiated at the smallest sizes (shortcuts for n = 1, 2 come first in many routines)
    nonherm["1x1_nonreal"] = {"gen": "entry", "m": 1, "n": 1, "i": 0, "j": 0, "q": [1.0, 0.5, -0.25, 2.0]}
    nonherm["1x1_pure_i"] = {"gen": "entry", "m": 1, "n": 1, "i": 0, "j": 0, "q": [0.0, 1.0, 0.0, 0.0]}
    nonherm["2x2_generic"] = G(2, 2, 31)
    nonherm["2x2_imag_diag"] = {"gen": "add", "a": HERM2, "b": {"gen": "entry", "m": 2, "n": 2, "i": 1, "j": 1, "q": [0, 0, 0.5, 0]}}
    # ... and at mid size (n = 13, 17), with the single offending entry in the last rows / columns: a
    # guard that works on tiles or blocks must not lose the ragged remainder
    for nb_ in (13, 17):
        Hb_ = {"gen": "herm", "n": nb_, "seed": 40 + nb_, "lam": [round(2.0 - 0.2 * i_, 3) for i_ in range(nb_)]}
        nonherm[f"{nb_}x{nb_}_last_row"] = {"gen": "add", "a": Hb_, "b": {"gen": "entry", "m": nb_, "n": nb_, "i": nb_ - 1, "j": 2,
                                                                        "q": [0.5, 0, 0, 0]}}
        nonherm[f"{nb_}x{nb_}_last_diag"] = {"gen": "add", "a": Hb_, "b": {"gen": "entry", "m": nb_, "n": nb_, "i": nb_ - 1,
                                                                         "j": nb_ - 1, "q": [0, 0, 0.5, 0]}}
    for nm, M in nonherm.items():
        if nm.startswith("1x1"):
            B(f"det_moore:nonherm_{nm}", "utils.det", [M, "Moore"], argclass="non-Hermitian by a margin")
            for fn in ("quaternion_eigendecomposition", "quaternion_eigenvalues", "quaternion_eigenvectors"):
                B(f"{fn}:nonherm_{nm}", f"decomp.{fn}", [M], argclass="non-Hermitian by a margin")
            continue
        B(f"det_moore:nonherm_{nm}", "utils.det", [M, "Moore"], argclass="non-Hermitian by a margin")
        B(f"eigendecomposition:nonherm_{nm}", "decomp.quaternion_eigendecomposition", [M], argclass="non-Hermitian by a margin")
        B(f"eigenvalues:nonherm_{nm}", "decomp.quaternion_eigenvalues", [M], argclass="non-Hermitian by a margin")
        B(f"eigenvectors:nonherm_{nm}", "decomp.quaternion_eigenvectors", [M], argclass="non-Hermitian by a margin")
        B(f"tridiagonalize:nonherm_{nm}", "decomp.tridiagonalize", [M], argclass="non-Hermitian by a margin")
    B("tridiagonalize:1x1", "decomp.tridiagonalize", [HERM1], argclass="below minimum size")
    # --- tensor
    B("tensor_unfold:order2", "tensor.tensor_unfold", [SQ, 0], argclass="wrong tensor order")
    B("tensor_unfold:order4", "tensor.tensor_unfold", [T4, 0], argclass="wrong tensor order")
    B("tensor_unfold:real", "tensor.tensor_unfold", [T3R, 0], argclass="real dtype")
    for md in (3, -1, -3, 4, 1.5, "0", None, "mode0"):
        B(f"tensor_unfold:mode_{md!r}", "tensor.tensor_unfold", [T3, md], argclass="unknown option")
        B(f"tensor_fold:mode_{md!r}", "tensor.tensor_fold", [G(2, 12, 3), md, {"gen": "tuple", "items": [2, 3, 4]}],
          argclass="unknown option")
    for mode, shp in ((0, (2, 12)), (1, (3, 8)), (2, (4, 6))):
        B(f"tensor_fold:shape_mode{mode}", "tensor.tensor_fold",
          [G(shp[0], shp[1] + 1, 3), mode, {"gen": "tuple", "items": [2, 3, 4]}], argclass="inconsistent fold shape")
        B(f"tensor_fold:shape_mode{mode}_swapped", "tensor.tensor_fold",
          [G(shp[1], shp[0], 3), mode, {"gen": "tuple", "items": [2, 3, 4]}], argclass="inconsistent fold shape")
    # --- qslst (assert-based guards)
    B("rgb_to_quat:2d", "qslst.rgb_to_quat", [{"gen": "real", "m": 4, "n": 4, "seed": 1}], argclass="wrong image shape")
    B("rgb_to_quat:4ch", "qslst.rgb_to_quat", [IMG], argclass="wrong image shape")
    B("quat_to_rgb:3ch", "qslst.quat_to_rgb", [{"gen": "realnd", "shape": [4, 4, 3], "seed": 1}], argclass="wrong image shape")
    for bd in ("reflect", "zero", "Periodic", "PERIODIC", "p", "periodic ", "", None):
        B(f"apply_blur_fft:boundary_{bd!r}", "qslst.apply_blur_fft", [IMG, {"gen": "real", "m": 3, "n": 3, "seed": 2}],
          {"boundary": bd}, argclass="unknown option")
        B(f"qslst_restore_fft:boundary_{bd!r}", "qslst.qslst_restore_fft",
          [IMG, {"gen": "real", "m": 3, "n": 3, "seed": 2}, 0.1], {"boundary": bd}, argclass="unknown option")
    B("qslst_restore_matrix:opsize", "qslst.qslst_restore_matrix", [IMG, {"gen": "real", "m": 15, "n": 15, "seed": 2}, 0.1],
      argclass="inconsistent shape pair")
    B("qslst_restore_matrix:oprect", "qslst.qslst_restore_matrix", [IMG, {"gen": "real", "m": 16, "n": 15, "seed": 2}, 0.1],
      argclass="inconsistent shape pair")
    # --- solver methods
    for sv in ("gmres", "gmres_lu"):
        BM(f"{sv}:tall", sv, "solve", [TALL, G(5, 1, 3)], "non-square")
        BM(f"{sv}:wide", sv, "solve", [WIDE, G(3, 1, 3)], "non-square")
        BM(f"{sv}:rhs_rows_3_for_4", sv, "solve", [SQ, G(3, 1, 3)], "mismatched right-hand side")
        BM(f"{sv}:rhs_rows_5_for_4", sv, "solve", [SQ, G(5, 1, 3)], "mismatched right-hand side")
        BM(f"{sv}:rhs_rows_1_for_4", sv, "solve", [SQ, G(1, 1, 3)], "mismatched right-hand side")
    BM("rsp_column:wide", "rsp", "compute_column_variant", [WIDE], "wrong orientation")
    BM("rsp_column:row", "rsp", "compute_column_variant", [ROW], "wrong orientation")
    BM("rsp_row:tall", "rsp", "compute_row_variant", [TALL], "wrong orientation")
    BM("rsp_row:col", "rsp", "compute_row_variant", [COL], "wrong orientation")
    BM("hybrid:wide", "hybrid", "compute", [WIDE], "wrong orientation")
    BM("hybrid:row", "hybrid", "compute", [ROW], "wrong orientation")
    BM("cgne:wide", "cgne", "compute", [WIDE], "wrong orientation")
    BM("cgne:row", "cgne", "compute", [ROW], "wrong orientation")
    BM("deep:layers_first", "deep", "compute", [TALL, [4, 3]], "wrong layer list")
    BM("deep:layers_first2", "deep", "compute", [TALL, [2, 3, 3]], "wrong layer list")

    # --- in-domain boundary rows: must NOT be rejected
    for nm, M in (("1x1", ONE), ("1x4", ROW), ("4x1", COL)):
        OK(f"in:qsvd_full:{nm}", "decomp.qsvd.classical_qsvd_full", [M])
        OK(f"in:qsvd:{nm}", "decomp.qsvd.classical_qsvd", [M, 1])
        OK(f"in:qr:{nm}", "decomp.qsvd.qr_qua", [M])
        OK(f"in:lu:{nm}", "decomp.quaternion_lu", [M])
        OK(f"in:lu_p:{nm}", "decomp.quaternion_lu", [M], {"return_p": True})
        OK(f"in:rank:{nm}", "utils.rank", [M])
        OK(f"in:null_right:{nm}", "utils.quat_null_space", [M], {"side": "right"})
        OK(f"in:null_left:{nm}", "utils.quat_null_space", [M], {"side": "left"})
        for o in (None, "fro", "F", 1, 2, "inf"):
            OK(f"in:matrix_norm_{o}:{nm}", "utils.matrix_norm", [M, o])
        OK(f"in:real_expand:{nm}", "utils.real_expand", [M])
        OK(f"in:modulus:{nm}", "decomp.quaternion_modulus", [M])
        OK(f"in:triu:{nm}", "decomp.quaternion_triu", [M])
        OK(f"in:rand_qsvd:{nm}", "decomp.qsvd.rand_qsvd", [M, 1], {"oversample": 0, "n_iter": 1})
        OK(f"in:pass_eff_qsvd:{nm}", "decomp.qsvd.pass_eff_qsvd", [M, 1], {"oversample": 0})
        OKM(f"in:ns:{nm}", "ns", "compute", [M])
        OKM(f"in:hon:{nm}", "hon", "compute", [M])
        OKM(f"in:rsp:{nm}", "rsp", "compute", [M])
    # any rank, including 0
    for nm, Z in (("zero3x3", {"gen": "zeros", "m": 3, "n": 3}), ("zero4x2", {"gen": "zeros", "m": 4, "n": 2}),
                  ("rank1_4x4", {"gen": "psvd", "m": 4, "n": 4, "sigma": [1.0, 0.0, 0.0, 0.0], "seed": 3})):
        OK(f"in:rank:{nm}", "utils.rank", [Z])
        OK(f"in:null_right:{nm}", "utils.quat_null_space", [Z], {"side": "right"})
        OK(f"in:null_left:{nm}", "utils.quat_null_space", [Z], {"side": "left"})
        OK(f"in:qsvd_full:{nm}", "decomp.qsvd.classical_qsvd_full", [Z])
        OK(f"in:qr:{nm}", "decomp.qsvd.qr_qua", [Z])
        for o in (None, 1, 2, "inf"):
            OK(f"in:matrix_norm_{o}:{nm}", "utils.matrix_norm", [Z, o])
        OK(f"in:real_expand:{nm}", "utils.real_expand", [Z])
    OK("in:ishermitian:zero3x3", "utils.ishermitian", [{"gen": "zeros", "m": 3, "n": 3}])
    OK("in:eig:zero3x3", "decomp.quaternion_eigendecomposition", [{"gen": "zeros", "m": 3, "n": 3}])
    OK("in:hessenbergize:zero3x3", "decomp.hessenberg.hessenbergize", [{"gen": "zeros", "m": 3, "n": 3}])
    OK("in:det_dieudonne:rank1", "utils.det", [{"gen": "psvd", "m": 4, "n": 4, "sigma": [1.0, 0.0, 0.0, 0.0], "seed": 3}, "Dieudonne"])
    for nm, Z in (("zero4x2", {"gen": "zeros", "m": 4, "n": 2}), ("zero2x4", {"gen": "zeros", "m": 2, "n": 4}),
                  ("zero1x1", {"gen": "zeros", "m": 1, "n": 1}),
                  ("rank1_4x3", {"gen": "psvd", "m": 4, "n": 3, "sigma": [1.0, 0.0, 0.0], "seed": 3})):
        OKM(f"in:ns:{nm}", "ns", "compute", [Z])
        OKM(f"in:hon:{nm}", "hon", "compute", [Z])
        OKM(f"in:rsp:{nm}", "rsp", "compute", [Z])
    OKM("in:cgne:rank1_4x3", "cgne", "compute", [{"gen": "psvd", "m": 4, "n": 3, "sigma": [1.0, 0.0, 0.0], "seed": 3}])
    OKM("in:hybrid:rank1_4x3", "hybrid", "compute", [{"gen": "psvd", "m": 4, "n": 3, "sigma": [1.0, 0.0, 0.0], "seed": 3}])
    OKM("in:cgne:zero4x2", "cgne", "compute", [{"gen": "zeros", "m": 4, "n": 2}])
    OKM("in:hybrid:zero4x2", "hybrid", "compute", [{"gen": "zeros", "m": 4, "n": 2}])
    # option flags together with the smallest sizes (diagnostics code often assumes n >= 2)
    for n_ in (1, 2):
        Sq_ = G(n_, n_, 60 + n_)
        for fn_, kw_ in (("decomp.quaternion_schur", {"max_iter": 10, "return_diagnostics": True}),
                         ("decomp.quaternion_schur_pure", {"max_iter": 10, "return_diagnostics": True}),
                         ("decomp.quaternion_schur_pure_implicit", {"max_iter": 10, "return_diagnostics": True}),
                         ("decomp.schur.quaternion_schur_experimental", {"max_iter": 10, "return_diagnostics": True}),
                         ("decomp.quaternion_lu", {"return_p": True})):
            OK(f"in:{fn_.split('.')[-1]}:flags_{n_}x{n_}", fn_, [Sq_], kw_)
        for v_ in ("rayleigh", "implicit", "aed", "ds", "none"):
            OK(f"in:schur_unified:{v_}_diag_{n_}x{n_}", "decomp.quaternion_schur_unified", [Sq_],
               {"max_iter": 10, "variant": v_, "return_diagnostics": True})
    # mid-size exactly Hermitian input is accepted
    for nb_ in (13, 17):
        Hb_ = {"gen": "herm", "n": nb_, "seed": 40 + nb_, "lam": [round(2.0 - 0.2 * i_, 3) for i_ in range(nb_)]}
        OK(f"in:tridiagonalize:{nb_}x{nb_}", "decomp.tridiagonalize", [Hb_])
        OK(f"in:eigenvalues:{nb_}x{nb_}", "decomp.quaternion_eigenvalues", [Hb_])
    # Hermitian only up to rounding (Q D Q^H as computed, not symmetrised afterwards) at several
    # scales: what users actually have; a Hermitian test with an absolute tolerance rejects it at
    # large scale, an exact-equality test rejects it at every scale
    for sc in (1.0, 1e8, 1e12, 1e-8):
        for n_ in (2, 4):
            Hr = {"gen": "scale", "c": sc, "of": {"gen": "herm", "n": n_, "seed": 90 + n_, "raw": True,
                                                  "lam": [2.0, -1.0, 0.5, -0.25][:n_]}}
            tag = f"{n_}_{sc:g}"
            OK(f"in:eig:rounding_{tag}", "decomp.quaternion_eigendecomposition", [Hr])
            OK(f"in:eigenvalues:rounding_{tag}", "decomp.quaternion_eigenvalues", [Hr])
            OK(f"in:eigenvectors:rounding_{tag}", "decomp.quaternion_eigenvectors", [Hr])
            OK(f"in:tridiagonalize:rounding_{tag}", "decomp.tridiagonalize", [Hr])
            OK(f"in:det_moore:rounding_{tag}", "utils.det", [Hr, "Moore"])
    # uniformly scaled (still regular / Hermitian / full-rank) inputs: a guard with an absolute
    # threshold must not start rejecting them
    for sc in (1e-9, 1e-6, 1e6, 1e9):
        S_ = {"gen": "scale", "c": sc, "of": SQ}
        Hs = {"gen": "scale", "c": sc, "of": HERM}
        tag = f"{sc:g}"
        OK(f"in:lu:scaled_{tag}", "decomp.quaternion_lu", [S_])
        OK(f"in:lu_p:scaled_{tag}", "decomp.quaternion_lu", [S_], {"return_p": True})
        OK(f"in:qr:scaled_{tag}", "decomp.qsvd.qr_qua", [S_])
        OK(f"in:qsvd_full:scaled_{tag}", "decomp.qsvd.classical_qsvd_full", [S_])
        OK(f"in:rank:scaled_{tag}", "utils.rank", [S_])
        OK(f"in:hessenbergize:scaled_{tag}", "decomp.hessenberg.hessenbergize", [S_])
        OK(f"in:eig:scaled_{tag}", "decomp.quaternion_eigendecomposition", [Hs])
        OK(f"in:tridiagonalize:scaled_{tag}", "decomp.tridiagonalize", [Hs])
        OK(f"in:det_moore:scaled_{tag}", "utils.det", [Hs, "Moore"])
        OK(f"in:ishermitian:scaled_{tag}", "utils.ishermitian", [Hs])
        OK(f"in:power_iteration:scaled_{tag}", "utils.power_iteration", [Hs], {"max_iterations": 5})
        OKM(f"in:gmres_lu:scaled_{tag}", "gmres_lu", "solve", [S_, G(4, 1, 9)])
        OKM(f"in:ns:scaled_{tag}", "ns", "compute", [{"gen": "scale", "c": sc, "of": TALL}])
        OKM(f"in:cgne:scaled_{tag}", "cgne", "compute", [{"gen": "scale", "c": sc, "of": TALL}])
    OKM("in:rsp_column:4x1", "rsp", "compute_column_variant", [COL])
    OKM("in:rsp_column:1x1", "rsp", "compute_column_variant", [ONE])
    OKM("in:rsp_row:1x4", "rsp", "compute_row_variant", [ROW])
    OKM("in:rsp_row:1x1", "rsp", "compute_row_variant", [ONE])
    OKM("in:rsp_column:square", "rsp", "compute_column_variant", [SQ])
    OKM("in:rsp_row:square", "rsp", "compute_row_variant", [SQ])
    OKM("in:cgne:4x1", "cgne", "compute", [COL])
    OKM("in:cgne:1x1", "cgne", "compute", [ONE])
    OKM("in:hybrid:4x1", "hybrid", "compute", [COL])
    OKM("in:hybrid:1x1", "hybrid", "compute", [ONE])
    OKM("in:gmres:1x1", "gmres", "solve", [ONE, G(1, 1, 9)])
    OKM("in:gmres_lu:1x1", "gmres_lu", "solve", [ONE, G(1, 1, 9)])
    OKM("in:gmres:sparse", "gmres", "solve", [SPARSE, G(4, 1, 9)])
    OKM("in:deep:1x1", "deep", "compute", [ONE, [1, 1]])
    OK("in:eig:1x1", "decomp.quaternion_eigendecomposition", [HERM1])
    OK("in:eig:2x2", "decomp.quaternion_eigendecomposition", [HERM2])
    OK("in:tridiagonalize:2x2", "decomp.tridiagonalize", [HERM2])
    OK("in:hessenbergize:1x1", "decomp.hessenberg.hessenbergize", [ONE])
    OK("in:schur:1x1", "decomp.quaternion_schur", [ONE])
    OK("in:schur_pure:1x1", "decomp.quaternion_schur_pure", [ONE])
    OK("in:schur_pure_implicit:1x1", "decomp.quaternion_schur_pure_implicit", [ONE])
    for var in ("rayleigh", "implicit", "aed", "none"):
        OK(f"in:schur_unified_{var}:1x1", "decomp.quaternion_schur_unified", [ONE], {"variant": var})
    OK("in:schur_experimental:1x1", "decomp.schur.quaternion_schur_experimental", [ONE])
    OK("in:power_iteration:1x1", "utils.power_iteration", [HERM1], {"return_eigenvalue": True})
    OK("in:power_iteration_nonhermitian:1x1", "utils.power_iteration_nonhermitian", [ONE])
    OK("in:det_dieudonne:1x1", "utils.det", [ONE, "Dieudonne"])
    OK("in:det_dieudonne_accent:1x1", "utils.det", [ONE, "Dieudonné"])
    OK("in:det_moore:1x1", "utils.det", [HERM1, "Moore"])
    OK("in:det_moore:4x4", "utils.det", [HERM, "Moore"])
    OK("in:ishermitian:1x1", "utils.ishermitian", [ONE])
    OK("in:adjoint:1x1", "utils.quaternion_to_complex_adjoint", [ONE])
    OK("in:tensor_unfold:111", "tensor.tensor_unfold", [T111, 2])
    for mode in (0, 1, 2):
        OK(f"in:tensor_unfold:mode{mode}", "tensor.tensor_unfold", [T3, mode])
    OK("in:tensor_fold:111", "tensor.tensor_fold", [ONE, 1, {"gen": "tuple", "items": [1, 1, 1]}])
    OK("in:tensor_fold:mode1", "tensor.tensor_fold", [G(3, 8, 3), 1, {"gen": "tuple", "items": [2, 3, 4]}])
    OK("in:rgb_to_quat:1px", "qslst.rgb_to_quat", [{"gen": "realnd", "shape": [1, 1, 3], "seed": 1}])
    OK("in:quat_to_rgb:1px", "qslst.quat_to_rgb", [{"gen": "realnd", "shape": [1, 1, 4], "seed": 1}])
    OK("in:apply_blur_fft:periodic", "qslst.apply_blur_fft", [IMG, {"gen": "real", "m": 3, "n": 3, "seed": 2}],
       {"boundary": "periodic"})
    OK("in:qslst_restore_fft:periodic", "qslst.qslst_restore_fft", [IMG, {"gen": "real", "m": 3, "n": 3, "seed": 2}, 0.1])
    # boundary values of the scalar parameters and the smallest operands
    psf1 = {"gen": "realnd_const", "shape": [1, 1], "c": 1.0}
    OK("in:qslst_restore_fft:lam0_psf1x1", "qslst.qslst_restore_fft", [IMG, psf1, 0.0])
    OK("in:qslst_restore_fft:lam_large", "qslst.qslst_restore_fft", [IMG, {"gen": "real", "m": 3, "n": 3, "seed": 2}, 10.0])
    OK("in:qslst_restore_fft:1px", "qslst.qslst_restore_fft", [{"gen": "realnd", "shape": [1, 1, 4], "seed": 1}, psf1, 0.5])
    OK("in:apply_blur_fft:psf1x1", "qslst.apply_blur_fft", [IMG, psf1])
    OK("in:apply_blur_fft:1px", "qslst.apply_blur_fft", [{"gen": "realnd", "shape": [1, 1, 4], "seed": 1}, psf1])
    OK("in:qslst_restore_matrix:lam0", "qslst.qslst_restore_matrix",
       [{"gen": "realnd", "shape": [1, 2, 4], "seed": 1}, {"gen": "realnd_const", "shape": [2, 2], "c": 1.0, "eye": True}, 0.0])
    OK("in:build_psf_gaussian:r0", "qslst.build_psf_gaussian", [0, 1.0])
    OK("in:build_psf_motion:len1", "qslst.build_psf_motion", [1, 0.0])
    OK("in:rgb_to_quat:real_part", "qslst.rgb_to_quat", [{"gen": "realnd", "shape": [2, 1, 3], "seed": 1}], {"real_part": 0.0})
    OK("in:qslst_restore_matrix:1px", "qslst.qslst_restore_matrix",
       [{"gen": "realnd", "shape": [1, 1, 4], "seed": 1}, {"gen": "real", "m": 1, "n": 1, "seed": 2}, 0.1])
    return bad, good


BAD, GOOD = _cells()
POSITIONS = ("first", "sandwich", "after_seed")
FILLERS = [
    {"k": "fn", "fn": "utils.rank", "args": [TALL]},
    {"k": "fn", "fn": "decomp.qsvd.rand_qsvd", "args": [TALL, 2], "kwargs": {"oversample": 1, "n_iter": 1}},
    {"k": "fn", "fn": "utils.power_iteration", "args": [HERM], "kwargs": {"max_iterations": 5, "return_eigenvalue": True}},
    {"k": "fn", "fn": "decomp.quaternion_lu", "args": [SQ]},
]


def _step_for(cell, kind):
    st = {"k": kind, "args": cell["args"], "cell": cell["id"], "argclass": cell.get("class", "in-domain boundary")}
    if "solver" in cell:
        st.update(obj="s0", meth=cell["meth"])
    else:
        st["fn"] = cell["fn"]
        if cell.get("kwargs"):
            st["kwargs"] = cell["kwargs"]
    return st


def gen_trace(seed, world, cell, position, kind, R=None, twin=None):
    steps = []
    sv = cell.get("solver")
    if position == "after_twin":
        # the bad request right after (and before) an IN-DOMAIN request to the same routine: a
        # guard that only runs on a cold path (cache miss, first call) is skipped here
        tw = dict(_step_for(twin, "fn"), valid=True)
        steps = [{"k": "rng", "op": "seed", "v": 5}, dict(tw), _step_for(cell, kind), dict(tw)]
        return {"prop": PROP, "seed": seed, "world": world, "mode": kind, "cell": cell["id"],
                "position": position, "steps": steps}
    if sv:
        cls, cfg, vmeth, vargs = SOLVERS[sv]
        valid = {"k": "call", "obj": "s0", "meth": vmeth, "args": vargs, "valid": True}
    else:
        valid = dict((R.choice(FILLERS) if R else FILLERS[1]), valid=True)
    target = _step_for(cell, kind)
    if position == "first":
        if sv:
            steps.append({"k": "new", "obj": "s0", "cls": cls, "cfg": cfg})
        steps += [target, dict(valid)]
    elif position == "sandwich":
        steps.append({"k": "rng", "op": "seed", "v": 99})
        if sv:
            steps.append({"k": "new", "obj": "s0", "cls": cls, "cfg": cfg})
        steps += [dict(valid), target, dict(valid)]
    else:   # between a seeded construction / re-seed and the next randomised call
        if sv:
            steps.append({"k": "new", "obj": "s0", "cls": cls, "cfg": dict(cfg)})
        else:
            steps.append({"k": "rng", "op": "seed", "v": 7})
        steps.append({"k": "rng", "op": "draw", "n": 13})
        steps += [target, dict(FILLERS[1], valid=True), dict(valid)]
    return {"prop": PROP, "seed": seed, "world": world, "mode": kind, "cell": cell["id"],
            "position": position, "steps": steps}


def gen_jobs(base_seed, tier, budget=None):
    worlds = WORLDS_QUICK if tier == "quick" else WORLDS_THOROUGH
    jobs = []
    sid = 0
    for kind, cells in (("bad", BAD), ("call", GOOD)):
        for cell in cells:
            for pos in POSITIONS:
                for w in worlds:
                    seed = base_seed * 10 ** 6 + sid
                    k = kind if kind == "bad" else ("call" if "solver" in cell else "fn")
                    jobs.append({"seed": seed, "trace": gen_trace(seed, w, cell, pos, k)})
                sid += 1
    # every out-of-domain cell of a plain function that has an in-domain cell for the same routine:
    # once more, right after that in-domain request (prefer a twin with the same leading argument)
    good_by_fn = {}
    for g in GOOD:
        if "fn" in g:
            good_by_fn.setdefault(g["fn"], []).append(g)
    for cell in BAD:
        if "fn" not in cell or cell["fn"] not in good_by_fn:
            continue
        cands = good_by_fn[cell["fn"]]
        same = [g for g in cands if g["args"][:1] == cell["args"][:1]]
        for tw in (same[:1] or cands[:1]) + [g for g in cands[1:2] if not same]:
            for w in worlds:
                seed = base_seed * 10 ** 6 + sid
                jobs.append({"seed": seed, "trace": gen_trace(seed, w, cell, "after_twin", "bad", twin=tw)})
            sid += 1
    # thorough: the cells again inside longer random histories
    n_rand = 0 if tier == "quick" else (budget if budget is not None else 4000)
    for i in range(n_rand):
        seed = base_seed * 10 ** 6 + 500000 + i
        R = sub_rng(seed, "C20")
        cell = R.choice(BAD)
        w = worlds[i % len(worlds)]
        tr = gen_trace(seed, w, cell, R.choice(POSITIONS), "bad", R)
        # extra valid traffic and a second bad request
        extra = [dict(R.choice(FILLERS), valid=True) for _ in range(R.randint(1, 3))]
        c2 = R.choice([c for c in BAD if ("solver" in c) == ("solver" in cell) and c.get("solver") == cell.get("solver")])
        tr["steps"] += extra + [_step_for(c2, "bad"), dict(R.choice(FILLERS), valid=True)]
        tr["mode"] = "random"
        jobs.append({"seed": seed, "trace": tr})
    return jobs, worlds


class Hooks(BaseHooks):
    def __init__(self, trace):
        super().__init__(trace)
        self.cnt = {"bad_requests": 0, "rejected": 0, "indomain_requests": 0, "valid_after_bad": 0}
        self.need = []
        self.seen_bad = False

    def after_step(self, ex, i, step, rec, viol):
        k = step["k"]
        if k == "bad":
            self.cnt["bad_requests"] += 1
            self.seen_bad = True
            name = step.get("fn") or f"{ex.objcfg[step['obj']][0]}.{step['meth']}"
            if rec["ok"] != "exc":
                viol.append(V("answered", i, f"{name} answered an out-of-domain request ({step.get('argclass')}; cell "
                                             f"{step.get('cell')}) with {json.dumps(rec.get('summary'), default=str)[:200]}"))
            else:
                self.cnt["rejected"] += 1
            if rec["args_changed"]:
                viol.append(V("modified_args", i, f"{name} modified argument(s) {rec['args_changed']} before/while rejecting"))
            if rec.get("obj_before") != rec.get("obj_after"):
                viol.append(V("modified_solver", i, f"{name} changed the solver object's state while rejecting the request"))
            if rec["rng_before"] != rec["rng_after"]:
                viol.append(V("modified_rng", i, f"{name} consumed / re-seeded the shared RNG before rejecting the request "
                                                 f"(draws {rec.get('draws')})"))
        elif k in ("call", "fn"):
            if step.get("valid"):
                if self.seen_bad:
                    self.cnt["valid_after_bad"] += 1
                self.need.append(i)
            else:
                self.cnt["indomain_requests"] += 1
                name = step.get("fn") or f"{ex.objcfg[step['obj']][0]}.{step['meth']}"
                if rec["ok"] == "exc":
                    viol.append(V("rejected_indomain", i, f"{name} rejected an in-domain boundary argument (cell "
                                                          f"{step.get('cell')}): {rec.get('exc')}: {rec.get('exc_msg')}"))
                if rec["args_changed"]:
                    viol.append(V("modified_args", i, f"{name} modified its arguments"))

    def ref_requests(self, ex):
        return [(i, ref_request(ex, i, self.trace["steps"][i], ex.states)) for i in self.need]

    def stats(self, ex):
        return dict(self.cnt)


def finding_tags(trace, v):
    idx = v.get("step", -1)
    st = trace["steps"][idx] if 0 <= idx < len(trace["steps"]) else {}
    return {"oracle": v["oracle"], "cell": st.get("cell") or trace.get("cell"), "position": trace.get("position"),
            "argclass": st.get("argclass")}


def violation_target(trace, v):
    return str(finding_tags(trace, v).get("cell"))


def signature(trace, result):
    return f"{trace.get('cell')}|{trace.get('position')}|{trace['world']}|{trace.get('mode')}|" \
           + ("" if trace.get("mode") != "random" else str(trace["seed"]))


def nontrivial(trace, result):
    return True


def evidence_extra(jobs, results):
    done = {(r["job"]["trace"]["cell"], r["job"]["trace"]["position"], r["world"]) for r in results
            if r["job"]["trace"].get("mode") != "random" and r["job"]["trace"]["position"] != "after_twin"}
    twins = sum(1 for r in results if r["job"]["trace"].get("position") == "after_twin")
    worlds = sorted({r["world"] for r in results})
    total = (len(BAD) + len(GOOD)) * len(POSITIONS) * len(worlds)
    classes = {}
    for c in BAD:
        classes[c["class"]] = classes.get(c["class"], 0) + 1
    return {"table": {"out_of_domain_cells": len(BAD), "in_domain_boundary_cells": len(GOOD),
                      "positions": list(POSITIONS), "worlds": worlds, "cells_x_positions_x_worlds": total,
                      "executed": len(done), "after_in_domain_twin_runs": twins, "argument_classes": classes},
            "exhaustive": len(done) == total,
            "unguarded_not_claimed": [
                "unknown Schur `variant` / `shift` strings", "unknown `preconditioner` string of QGMRESSolver",
                "real-dtype input to the Newton-Schulz classes, power_iteration, hessenbergize, rand_qsvd / pass_eff_qsvd, the norms",
                "a PSF larger than the image", "a truncation rank above min(m, n)", "1-D right-hand side for Q-GMRES"]}
