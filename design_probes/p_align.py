import os
os.environ["OMP_NUM_THREADS"]="1"; os.environ["OPENBLAS_NUM_THREADS"]="1"
import numpy as np
rng=np.random.default_rng(0)
def mis(a,off):
    buf=np.empty(a.size+8,dtype=np.float64)
    v=buf[off:off+a.size].reshape(a.shape); v[...]=a; return v
diff=0;tot=0
for trial in range(300):
    m,k,n=rng.integers(1,12,3)
    A=rng.standard_normal((m,k)); B=rng.standard_normal((k,n))
    ref=(A@B).tobytes(); s=np.sum(A**2).tobytes(); nr=np.linalg.norm(A).tobytes(); sv=np.linalg.svd(A,compute_uv=False).tobytes()
    for oa in range(1,8):
        A2=mis(A,oa); B2=mis(B,(oa*3)%8)
        tot+=1
        if (A2@B2).tobytes()!=ref or np.sum(A2**2).tobytes()!=s or np.linalg.norm(A2).tobytes()!=nr or np.linalg.svd(A2,compute_uv=False).tobytes()!=sv: diff+=1
print('alignment diffs',diff,'of',tot)
# strided views (as_float_array[...,0] style)
import quaternion
diff=0;tot=0
for trial in range(300):
    m,k,n=rng.integers(1,12,3)
    A4=rng.standard_normal((m,k,4)); B4=rng.standard_normal((k,n,4))
    r1=(A4[...,1]@B4[...,2]).tobytes()
    r2=(np.ascontiguousarray(A4[...,1])@np.ascontiguousarray(B4[...,2])).tobytes()
    tot+=1; diff+= r1!=r2
print('strided vs contiguous diffs',diff,'of',tot)
