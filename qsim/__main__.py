"""CLI: python -B -m qsim check <id> --tier quick|thorough | replay <file> | selftest"""

import argparse
import json
import os
import sys

import qsim  # noqa: F401  (pins BLAS threads before NumPy is imported)
from qsim import engine


def cmd_check(a):
    from qsim import check
    seed = a.seed if a.seed is not None else int(os.environ.get("VERIF_SEED", "1"))
    tier = a.tier or os.environ.get("VERIF_TIER") or "quick"
    if tier not in ("quick", "thorough"):
        tier = "quick"
    return check.run_check(a.prop.upper(), tier, seed, budget=a.budget, time_cap=a.time_cap,
                           nworkers=a.workers)


def cmd_replay(a):
    with open(a.file) as f:
        doc = json.load(f)
    trace = doc["trace"] if "trace" in doc else doc
    pid = trace["prop"]
    pm = engine.prop_module(pid)
    if doc.get("xinterp"):
        # interpreter-identity violation: the trace is executed in two fresh interpreters that
        # differ only in PYTHONHASHSEED; the recorded per-step signatures must be equal
        from qsim import check
        job = {"seed": trace.get("seed"), "trace": trace}
        diff, err = check.xinterp_diff([job], doc["xinterp"]["hashseeds"])
        if err:
            print("HARNESS-ERROR " + err, file=sys.stderr)
            return 2
        print("REPLAY-RESULT " + json.dumps({"violations": [{"cls": doc["violation"]["cls"], "step": d_["step"],
                                                             "detail": d_["detail"]} for d_ in diff], "hist": ""}))
        if diff:
            print(f"  violated oracle=interpreter_identity step={diff[0]['step']}: {diff[0]['detail']}")
            print(f"VIOLATION property={pid} replay={os.path.abspath(a.file)}")
            return 1
        return 0
    known = [e for e in engine.load_known_findings() if e["property"] == pid]
    worlds = (trace["world"],) + ((trace["compare_world"],) if trace.get("compare_world") else ())
    pools = engine.Pools(worlds, nworkers=len(worlds))
    try:
        res = engine.run_trace(pools, trace, keep_recs=True)
    finally:
        pools.close()
    if "harness_error" in res:
        print("HARNESS-ERROR " + res["harness_error"], file=sys.stderr)
        return 2
    bad = []
    for v in res["viol"]:
        tags = pm.finding_tags(trace, v)
        e = engine.match_known(known, tags)
        if e is not None:
            print(f"KNOWN-FINDING: property={pid} {e['what']} [{e['id']}]")
        else:
            bad.append(v)
    for i, r in enumerate(res.get("recs", [])):
        print(f"step {i}: {r.get('k')} -> {r.get('ok')} {r.get('exc', '')} "
              f"{json.dumps(r.get('summary'), default=str)[:200] if r.get('ok') == 'ret' else r.get('exc_msg', '')}"
              + (f" fault_at={r.get('fault_at')}" if r.get("fault_at") else ""))
    print("REPLAY-RESULT " + json.dumps({"violations": [{"cls": v["cls"], "step": v["step"],
                                                         "detail": v["detail"][:500]} for v in bad],
                                         "hist": res["hist"]}))
    for v in bad:
        print(f"  violated oracle={v['oracle']} step={v['step']}: {v['detail'][:500]}")
    if bad:
        print(f"VIOLATION property={pid} replay={os.path.abspath(a.file)}")
        return 1
    return 0


def cmd_xrun(a):
    """(internal) run the jobs of a file in this interpreter and print per-step signatures."""
    with open(a.file) as f:
        doc = json.load(f)
    jobs = doc["jobs"]
    worlds = tuple(sorted({j["trace"]["world"] for j in jobs}))
    pools = engine.Pools(worlds, nworkers=int(doc.get("workers", 4)))
    out = {}
    try:
        futs = [(j, pools.submit(j)) for j in jobs]
        for j, fu in futs:
            r = fu.result(timeout=engine.RUN_TIMEOUT_S * 4)
            out[engine.job_key(j)] = engine.step_sigs(r) if "harness_error" not in r else "HARNESS:" + str(r["harness_error"])[:200]
    finally:
        pools.close()
    print("XRUN-RESULT " + json.dumps(out))
    return 0


def cmd_selftest(a):
    from qsim import selftest
    return selftest.main(a)


def main():
    ap = argparse.ArgumentParser(prog="qsim")
    sub = ap.add_subparsers(dest="cmd", required=True)
    c = sub.add_parser("check")
    c.add_argument("prop")
    c.add_argument("--tier", default=None)
    c.add_argument("--seed", type=int, default=None)
    c.add_argument("--budget", type=int, default=None, help="number of runs (overrides the tier default)")
    c.add_argument("--time-cap", type=float, default=None)
    c.add_argument("--workers", type=int, default=None)
    c.set_defaults(fn=cmd_check)
    r = sub.add_parser("replay")
    r.add_argument("file")
    r.set_defaults(fn=cmd_replay)
    x = sub.add_parser("xrun")
    x.add_argument("file")
    x.set_defaults(fn=cmd_xrun)
    s = sub.add_parser("selftest")
    s.add_argument("--props", default="C04,C12,C13,C14,C19,C20")
    s.add_argument("--seeds", type=int, default=24)
    s.set_defaults(fn=cmd_selftest)
    a = ap.parse_args()
    try:
        code = a.fn(a)
    except SystemExit:
        raise
    except BaseException:  # noqa: BLE001 - a crash of the machinery is never a verdict (exit 1 is reserved)
        import traceback
        print("HARNESS-ERROR " + traceback.format_exc()[-3000:], file=sys.stderr)
        code = 2
    sys.exit(code)


if __name__ == "__main__":
    main()
