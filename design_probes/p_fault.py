import os
os.environ["OMP_NUM_THREADS"]="1"; os.environ["OPENBLAS_NUM_THREADS"]="1"
import numpy as np, quaternion, io, contextlib
import quatica, quatica.solver as S
from quatica.utils import quat_matmat, quat_frobenius_norm
rng=np.random.default_rng(3)
n=4
A=quaternion.as_quat_array(rng.standard_normal((n,n,4))); b=quaternion.as_quat_array(rng.standard_normal((n,1,4)))
def run(fault_at=None, target='_solve_upper_triangular_quat'):
    cnt=[0]; orig=getattr(S,target)
    def wrap(*a,**k):
        cnt[0]+=1
        if fault_at is not None and cnt[0]==fault_at: raise MemoryError('injected')
        return orig(*a,**k)
    setattr(S,target,wrap)
    try:
        buf=io.StringIO()
        with contextlib.redirect_stdout(buf):
            x,info=S.QGMRESSolver(tol=1e-10,preconditioner='left_lu',verbose=True).solve(A,b)
        r=quat_frobenius_norm(quat_matmat(A,x)-b)/quat_frobenius_norm(b)
        return cnt[0], info['converged'], float(info['residual']), float(r), 'failed' in buf.getvalue(), 'Lucky' in buf.getvalue()
    except Exception as e:
        return cnt[0], 'EXC', type(e).__name__
    finally: setattr(S,target,orig)
print('nofault',run())
for k in range(1,7): print('fault at upper-solve call',k,run(k))
# clock seam
class FakeTime:
    def __init__(s): s.t=1e9; s.n=0
    def time(s): s.n+=1; s.t+= (-3600 if s.n%3==0 else 0.001); return s.t
ft=FakeTime(); S.time=ft
X,info=S.CGNEQSolver(tol=1e-10).compute(A)
print('clock reads',ft.n,'times',info['iteration_times'][:3],info['total_time'])
# rng recording
rec=[]; orig=np.random.randn
def rr(*s): 
    v=orig(*s); rec.append(s); return v
np.random.randn=rr
np.random.seed(5); S.RandomizedSketchProjectPseudoinverse(block_size=2,max_iter=3).compute(A)
np.random.randn=orig
print('draw shapes',rec[:6],len(rec))
