"""C19 - power iteration returns a unit vector and converges to the dominant eigenpair,
from every random start (= every state of the shared global RNG).  DESIGN section 3, C19.
"""

import json
import math

from .common import rand_clock, BaseHooks, V, finite, is_qmat, np, qalg, ref_request, round_sig, sub_rng

PROP = "C19"
CLOCKS = [[0.0], [1e-3, -3600.0, 1e6], [1e6], [-1.0], [5e-4, 0.0, 0.0, 7200.0], [1e-9]]
WORLDS_QUICK = ("pkg", "flat")
WORLDS_THOROUGH = ("pkg", "flat", "pkg_then_flat", "flat_then_pkg")
BIG = 600   # >= 2*ceil(log(1e-12)/log(0.8)) = 248 iterations for gap ratio 0.8

RULE = ("one evaluation = one seeded run: a client seeds the shared RNG, foreign clients draw / re-seed, the "
        "eigen client calls power_iteration / power_iteration_nonhermitian (optionally under ulp-jitter), "
        "sometimes followed by a repeat with the restored RNG state; distinct = distinct (routine, family, n, "
        "spectrum, scale, budget, schedule events, fault) signature; non-trivial = n >= 2")


def gen_trace(seed, world, tier):
    R = sub_rng(seed, "C19")
    n = R.randint(1, 6 if tier == "quick" else 8)
    if R.random() < 0.03:
        n = R.randint(12, 24)          # a few mid-size matrices
    fam = R.choice(["herm_pos", "herm_neg", "herm_mixed", "herm_mixed", "general", "general_int", "general_zero_col"])
    scale = R.choice([0, 0, 0, 0, -6, 6, -3, 3, -12, 12, -9, -17, 17, -15, R.randint(-17, 17), R.randint(-11, -1)])
    # reducible Hermitian matrices (diagonal / block diagonal, dominant eigenvector away from
    # e_1): a start vector that is not random in every component never reaches it
    # ... and dense Hermitian matrices that have a "natural" deterministic vector (ones,
    # alternating signs, ramp) as eigenvector of a non-dominant eigenvalue (constant row sums:
    # graph Laplacians, circulants): a start that is not random stays there
    shape = R.choice(["dense", "dense", "dense", "diag", "blockdiag", "vec"]) if n >= 2 else "dense"
    s = R.randrange(10 ** 6)
    lam = None
    if fam.startswith("herm"):
        l1 = round_sig(R.uniform(0.5, 3.0), 4)
        rest = [round_sig(R.uniform(-0.8, 0.8) * l1, 4) for _ in range(n - 1)]
        if fam == "herm_pos":
            rest = [abs(v) for v in rest] if R.random() < 0.5 else rest
            lam = [l1] + rest
        elif fam == "herm_neg":
            lam = [-l1] + rest
        else:
            lam = [R.choice([1, -1]) * l1] + rest
            if n >= 2:
                lam[1] = -math.copysign(round_sig(0.8 * l1, 4), lam[0])   # opposite sign at the gap limit
        if shape == "diag":
            order = list(range(1, n))
            R.shuffle(order)
            pos = R.randint(1, n - 1)              # dominant eigenvalue NOT in position 0
            vals = [lam[j] for j in order]
            vals.insert(pos, lam[0])
            A = {"gen": "diagq", "vals": [float(v) for v in vals]}
        elif shape == "blockdiag":
            k1 = R.randint(1, n - 1)
            A = {"gen": "blockdiag", "blocks": [
                {"gen": "herm", "n": k1, "lam": lam[1:k1 + 1], "seed": s},
                {"gen": "herm", "n": n - k1, "lam": [lam[0]] + lam[k1 + 1:], "seed": s + 1}]}
        elif shape == "vec":
            A = {"gen": "herm_vec", "n": n, "lam": lam, "seed": s, "k": R.randint(1, n - 1),
                 "vec": R.choice(["ones", "ones", "alt", "ramp"])}
        else:
            A = {"gen": "herm", "n": n, "lam": lam, "seed": s}
    elif fam == "general":
        A = {"gen": "gauss", "m": n, "n": n, "seed": s}
    elif fam == "general_zero_col":
        # singular input with a zero column (A v may lose components); boundedness clauses only
        A = {"gen": "mul", "A": {"gen": "gauss", "m": n, "n": n, "seed": s},
             "x": {"gen": "diagq", "vals": [0.0 if j == s % n else 1.0 for j in range(n)]}}
    else:
        A = {"gen": "int", "m": n, "n": n, "seed": s}
    noisy = fam.startswith("herm") and R.random() < 0.15
    if noisy:
        # Hermitian only to rounding (what A = B^H B or a symmetrised product looks like)
        A = {"gen": "add", "a": A, "b": {"gen": "scale", "c": 1e-15, "of": {"gen": "gauss", "m": n, "n": n, "seed": s + 7}}}
    if scale:
        A = {"gen": "scale", "of": A, "c": 10.0 ** scale}
    routine = R.choice(["pi", "pi", "pi", "pinh"])
    sparse_arg = False
    budget = R.choice([BIG, BIG, BIG, 1, 2, 7, 0])
    if routine == "pi":
        fn = "utils.power_iteration"
        kw = {"max_iterations": budget, "return_eigenvalue": R.choice([True, True, True, True, 1, False])}
        if R.random() < 0.2:
            kw["tol"] = R.choice([1e-8, 1e-12, 0.0])
        if R.random() < 0.12:
            kw["verbose"] = True
        if R.random() < 0.12:
            # the matrix is handed over as a SparseQuaternionMatrix (dense @ sparse products inside)
            sparse_arg = True
            A = dict(A, storage="sparse")
            if R.random() < 0.5:
                A["explicit_zeros"] = True
    else:
        fn = "utils.power_iteration_nonhermitian"
        kw = {"max_iterations": R.choice([budget, 3000]), "seed": R.randrange(20),
              "eigenvalue_format": R.choice(["complex", "quaternion"])}
        if R.random() < 0.2:
            kw["block_purify"] = False
        if R.random() < 0.25:
            kw["return_vector"] = False
    tags = {"routine": routine, "family": fam, "n": n, "scale": scale, "lam": lam, "budget": kw["max_iterations"],
            "shape": shape if fam.startswith("herm") else "dense", "sparse": sparse_arg, "herm_exact": fam.startswith("herm") and not noisy}
    steps = [{"k": "rng", "op": "seed", "v": R.randrange(10 ** 6), "client": 0}]
    for _ in range(R.randint(0, 2)):
        if R.random() < 0.7:
            steps.append({"k": "rng", "op": "draw", "n": R.randint(1, 500), "client": 1})
        else:
            steps.append({"k": "rng", "op": "seed", "v": R.randrange(10 ** 6), "client": 1})
    call = {"k": "fn", "fn": fn, "args": [A], "kwargs": kw, "client": 2, "tags": tags}
    if R.random() < 0.1:
        call["clock"] = rand_clock(R)   # stalled / jumping / coarse clock: must not matter
    if R.random() < 0.35:
        call["fault"] = {"jitter": R.randrange(2 ** 31)}
    if R.random() < 0.15 and kw["max_iterations"] > 2:
        # the same matrix was already asked about with a tiny budget (a quick first look): what
        # that call computed must not be served again to the call with the real budget
        pk = dict(kw, max_iterations=R.choice([1, 2]))
        steps.append({"k": "fn", "fn": fn, "args": [A], "kwargs": pk, "client": 2,
                      "tags": dict(tags, budget=pk["max_iterations"], primer=True)})
    steps.append(call)
    if "fault" not in call and R.random() < 0.3:
        steps.append({"k": "repeat", "of": len(steps) - 1, "client": 0})
    return {"prop": PROP, "seed": seed, "world": world, "mode": "run", "steps": steps}


def gen_jobs(base_seed, tier, budget=None):
    worlds = WORLDS_QUICK if tier == "quick" else WORLDS_THOROUGH
    n = budget if budget is not None else (2000 if tier == "quick" else 80000)
    jobs = []
    for i in range(n):
        seed = base_seed * 10 ** 6 + i
        jobs.append({"seed": seed, "trace": gen_trace(seed, worlds[i % len(worlds)], tier)})
    return jobs, worlds


class Hooks(BaseHooks):
    def __init__(self, trace):
        super().__init__(trace)
        self.cnt = {"calls": 0, "gapped_converged_checked": 0, "neg_dominant": 0, "repeats": 0,
                    "hermitian_fastpath": 0, "complex_path": 0}
        self.need = []

    def after_step(self, ex, i, step, rec, viol):
        k = rec["k"]
        if k == "repeat":
            self.cnt["repeats"] += 1
            orig = ex.recs[step["of"]]
            if (orig["ok"], orig.get("digest")) != (rec["ok"], rec.get("digest")):
                viol.append(V("repeat", i, "same matrix and same global RNG state gave a different result"))
            return
        if k != "fn":
            return
        t = step["tags"]
        kw = step.get("kwargs", {})
        fault = step.get("fault") or {}
        if not fault:
            self.need.append(i)
        self.cnt["calls"] += 1
        n = t["n"]
        if rec["args_changed"]:
            viol.append(V("args_mutated", i, f"{step['fn']} changed its argument in place"))
        if rec["ok"] == "exc":
            viol.append(V("raised", i, f"{step['fn']} raised {rec.get('exc')}: {rec.get('exc_msg')} on a {n}x{n} input"))
            return
        A = self.dense(step["args"][0])
        nA = qalg.norm2(A)
        val = ex.values[i]
        herm_in = t["family"].startswith("herm")
        if t["routine"] == "pi":
            if kw.get("return_eigenvalue"):
                if not (isinstance(val, tuple) and len(val) == 2):
                    viol.append(V("shape", i, f"expected (v, eigenvalue), got {type(val).__name__}"))
                    return
                v, est = val
            else:
                v, est = val, None
            if not is_qmat(v, (n, 1)):
                viol.append(V("shape", i, f"vector has shape {getattr(v, 'shape', None)}, expected {(n, 1)}"))
                return
        else:
            if kw.get("return_vector") is False:
                if not (isinstance(val, tuple) and len(val) == 2):
                    viol.append(V("shape", i, f"expected (eigenvalue, residuals), got {type(val).__name__}"))
                    return
                lam_out = val[0]
                imag = (max(abs(lam_out.x), abs(lam_out.y), abs(lam_out.z)) if isinstance(lam_out, np.quaternion)
                        else abs(complex(lam_out).imag))
                if t.get("herm_exact") and imag != 0.0:
                    viol.append(V("real_eigenvalue", i, f"Hermitian input but eigenvalue {lam_out} has a non-zero imaginary part"))
                if False and herm_in and t["budget"] >= BIG:
                    re = lam_out.w if isinstance(lam_out, np.quaternion) else complex(lam_out).real
                    a1 = abs(t["lam"][0] * (10.0 ** t["scale"]))
                    if abs(abs(re) - a1) > 1e-8 * a1:
                        viol.append(V("eigenvalue", i, f"complex-adjoint variant returned {re!r}, |lambda_max| = {a1!r}"))
                return
            if not (isinstance(val, tuple) and len(val) == 3):
                viol.append(V("shape", i, f"expected (v, eigenvalue, residuals), got {type(val).__name__}"))
                return
            v, lam_out, _res = val
            if not (isinstance(v, np.ndarray) and v.dtype == np.quaternion and v.shape == (n,)):
                viol.append(V("shape", i, f"vector has shape {getattr(v, 'shape', None)}, expected {(n,)}"))
                return
            v = v.reshape(n, 1)
            if isinstance(lam_out, np.quaternion):
                est = math.sqrt(lam_out.w ** 2 + lam_out.x ** 2 + lam_out.y ** 2 + lam_out.z ** 2)
                imag = max(abs(lam_out.x), abs(lam_out.y), abs(lam_out.z))
                re = lam_out.w
            else:
                est = abs(complex(lam_out))
                imag = abs(complex(lam_out).imag)
                re = complex(lam_out).real
            if herm_in:
                self.cnt["hermitian_fastpath"] += 1
                if t.get("herm_exact") and imag != 0.0:
                    viol.append(V("real_eigenvalue", i, f"Hermitian input but eigenvalue {lam_out} has a non-zero imaginary part"))
            else:
                self.cnt["complex_path"] += 1
            # whatever path is taken, the eigenvalue estimate is a Rayleigh quotient of a unit
            # vector (of A or of its adjoint), hence bounded by the spectral norm
            if math.isfinite(float(est)) and float(est) > nA * (1 + 1e-8) + 1e-300:
                viol.append(V("bounded", i, f"complex-adjoint variant returned |lambda| = {float(est)!r} > ||A||_2 = {nA!r}"))
        if not finite(qalg.comps(v)) or (est is not None and not math.isfinite(float(est))):
            viol.append(V("nan", i, "non-finite vector or eigenvalue"))
            return
        nv = qalg.fro(v)
        if abs(nv - 1.0) > 1e-12:
            viol.append(V("unit_norm", i, f"||v|| = {nv!r} (budget {t['budget']}, {t['family']}, n={n})"))
        if est is not None and t["routine"] == "pi":
            est = float(est)
            if est > nA * (1 + 1e-10) + 1e-300:
                viol.append(V("bounded", i, f"estimate {est!r} exceeds ||A||_2 = {nA!r}"))
            if est < 0:
                viol.append(V("bounded", i, f"estimate {est!r} is negative (it is a modulus)"))
            # the estimate is the modulus of the Rayleigh quotient of the RETURNED vector
            # (every budget, converged or not)
            rq = qalg.mmm(qalg.herm(v), A, v)
            rqm = qalg.fro(rq) / max(nv * nv, 1e-300)
            if abs(est - rqm) > 1e-10 * max(nA, 1e-300):
                viol.append(V("rayleigh", i, f"estimate {est!r} is not |v^H A v| = {rqm!r} of the returned vector "
                                             f"(budget {t['budget']}, {t['family']}, n={n})"))
        # convergence from every start for the gapped Hermitian family with the large budget.
        # The property states it for the power iteration; of the complex-adjoint variant it
        # only promises a unit vector and, for Hermitian input, a real eigenvalue.
        if herm_in and t["budget"] >= BIG and n >= 1 and t["routine"] == "pi":
            lam1 = t["lam"][0] * (10.0 ** t["scale"])
            a1 = abs(lam1)
            if lam1 < 0:
                self.cnt["neg_dominant"] += 1
            if est is not None:
                self.cnt["gapped_converged_checked"] += 1
                if abs(float(est) - a1) > 1e-8 * a1:
                    viol.append(V("eigenvalue", i, f"estimate {float(est)!r} but |lambda_max| = {a1!r} "
                                                   f"(spectrum {t['lam']}, scale 1e{t['scale']})"))
            r = qalg.fro(qalg.mm(A, v) - v * lam1)
            if r > 1e-4 * a1:
                viol.append(V("eigenvector", i, f"||A v - lambda v|| = {r:.3e} > 1e-4*|lambda| with lambda = {lam1!r} "
                                                f"(spectrum {t['lam']})"))
            if t["routine"] == "pinh" and abs(re - a1) > 1e-8 * a1 and abs(re + a1) > 1e-8 * a1:
                viol.append(V("eigenvalue", i, f"complex-adjoint variant returned {re!r}, |lambda_max| = {a1!r}"))

    def ref_requests(self, ex):
        return [(i, ref_request(ex, i, self.trace["steps"][i], ex.states)) for i in self.need]

    def stats(self, ex):
        return dict(self.cnt)


def finding_tags(trace, v):
    idx = v.get("step", -1)
    st = trace["steps"][idx] if 0 <= idx < len(trace["steps"]) else {}
    if st.get("k") == "repeat":
        st = trace["steps"][st["of"]]
    tags = {k: val for k, val in (st.get("tags") or {}).items() if k != "lam"}
    tags["oracle"] = v["oracle"]
    tags["fault"] = "+".join(sorted((st.get("fault") or {}).keys())) or "none"
    return tags


def violation_target(trace, v):
    t = finding_tags(trace, v)
    return f"{t.get('routine')}:{t.get('family')}"


def signature(trace, result):
    sig = []
    for s in trace["steps"]:
        if s["k"] == "fn":
            t = s["tags"]
            sig.append((t["routine"], t["family"], t["n"], t["scale"], tuple(t["lam"] or ()), t["budget"],
                        tuple(sorted((k, str(v)) for k, v in s["kwargs"].items())), bool(s.get("fault"))))
        else:
            sig.append((s["k"], s.get("op")))
    return repr(sig)


def nontrivial(trace, result):
    return any(s["k"] == "fn" and s["tags"]["n"] >= 2 for s in trace["steps"])


def simplify(trace):
    out = []
    for si, s in enumerate(trace["steps"]):
        if s["k"] != "fn":
            continue
        A = s["args"][0]
        if A.get("gen") == "scale":
            t = json.loads(json.dumps(trace))
            t["steps"][si]["args"][0] = A["of"]
            t["steps"][si]["tags"]["scale"] = 0
            out.append(t)
        base = A["of"] if A.get("gen") == "scale" else A
        if base.get("gen") == "herm" and base["n"] > 1:
            t = json.loads(json.dumps(trace))
            b2 = dict(base, n=base["n"] - 1, lam=base["lam"][:-1])
            t["steps"][si]["args"][0] = dict(A, of=b2) if A.get("gen") == "scale" else b2
            t["steps"][si]["tags"].update(n=b2["n"], lam=b2["lam"])
            out.append(t)
        if base.get("gen") in ("gauss", "int") and base["n"] > 1:
            t = json.loads(json.dumps(trace))
            b2 = dict(base, n=base["n"] - 1, m=base["m"] - 1)
            t["steps"][si]["args"][0] = dict(A, of=b2) if A.get("gen") == "scale" else b2
            t["steps"][si]["tags"].update(n=b2["n"])
            out.append(t)
    return out
