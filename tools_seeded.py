#!/usr/bin/env python3
"""Confirm an independently written breaking change and run the qsim check against it.

usage: /venv/bin/python tools_seeded.py <PROP> <src dir with patch.diff demo.py notes.md> <name>
         [--tests "<pytest files>"] [--tier quick] [--budget N]

Steps (all in a scratch git worktree of /repo under /tmp, removed afterwards):
 1. patch.diff applies to the current HEAD of /repo;
 2. demo.py exits 0 on the clean tree (/repo itself, read-only) and non-zero on the patched tree;
 3. the listed existing tests pass on the patched tree;
 4. `python -m qsim check <PROP>` with QSIM_REPO=<patched tree> - exit code and VIOLATION lines recorded.
Writes /verif/seeded/<name>/{patch.diff, demo.py, notes.md, meta.json}.
"""
import argparse
import json
import os
import shutil
import subprocess
import sys
import time

VERIF = os.path.dirname(os.path.abspath(__file__))
PY = "/venv/bin/python"


def run(cmd, cwd=None, env=None, timeout=3600):
    p = subprocess.run(cmd, cwd=cwd, env=env, capture_output=True, text=True, timeout=timeout, shell=isinstance(cmd, str))
    return p.returncode, p.stdout + p.stderr


def main():
    ap = argparse.ArgumentParser()
    ap.add_argument("prop")
    ap.add_argument("src")
    ap.add_argument("name")
    ap.add_argument("--tests", default="")
    ap.add_argument("--tier", default="quick")
    ap.add_argument("--budget", default=None)
    ap.add_argument("--also", default="", help="other property checks to run too (comma separated)")
    a = ap.parse_args()
    wt = f"/tmp/sw_{a.name}"
    if os.path.exists(wt):
        run(["git", "-C", "/repo", "worktree", "remove", "--force", wt])
    rc, out = run(["git", "-C", "/repo", "worktree", "add", "--detach", wt, "HEAD"])
    assert rc == 0, out
    meta = {"name": a.name, "property": a.prop, "source": "independent sub-agent given only the property text and a scratch worktree",
            "base_commit": run(["git", "-C", "/repo", "rev-parse", "--short", "HEAD"])[1].strip()}
    try:
        rc, out = run(["git", "-C", wt, "apply", os.path.abspath(os.path.join(a.src, "patch.diff"))])
        meta["patch_applies"] = rc == 0
        assert rc == 0, out
        env = dict(os.environ, OMP_NUM_THREADS="1", OPENBLAS_NUM_THREADS="1")
        demo = os.path.abspath(os.path.join(a.src, "demo.py"))
        rc0, o0 = run([PY, "-B", demo, "/repo"], env=env, cwd="/tmp")
        rc1, o1 = run([PY, "-B", demo, wt], env=env, cwd="/tmp")
        meta["demo_exit_clean"] = rc0
        meta["demo_exit_patched"] = rc1
        meta["demo_output_patched_tail"] = o1[-600:]
        if a.tests:
            rct, ot = run(f"cd {wt} && {PY} -m pytest -q -p no:cacheprovider {a.tests} 2>&1 | tail -3", env=env)
            meta["existing_tests_run"] = a.tests
            meta["existing_tests_tail"] = ot.strip().splitlines()[-1] if ot.strip() else ""
            meta["existing_tests_pass"] = (" passed" in ot) and (" failed" not in ot) and (" error" not in ot)
        results = {}
        for pid in [a.prop] + [x for x in a.also.split(",") if x]:
            cmd = [PY, "-B", "-m", "qsim", "check", pid, "--tier", a.tier]
            if a.budget:
                cmd += ["--budget", str(a.budget)]
            t0 = time.time()
            env2 = dict(env, QSIM_REPO=wt)
            p = subprocess.run(cmd, cwd=VERIF, env=env2, capture_output=True, text=True, timeout=7200)
            lines = [ln for ln in p.stdout.splitlines() if ln.startswith("VIOLATION") or ln.startswith("  oracle=")
                     or ln.startswith("KNOWN-FINDING") or "unlisted violation class" in ln]
            results[pid] = {"cmd": " ".join(cmd) + f"  (QSIM_REPO={wt})", "exit": p.returncode, "wall_s": round(time.time() - t0, 1),
                            "detected": p.returncode == 1 and any(ln.startswith("VIOLATION") for ln in p.stdout.splitlines()),
                            "report": [ln[:400] for ln in lines if not ln.startswith("KNOWN-FINDING")][:12],
                            "stderr_tail": p.stderr[-400:] if p.returncode == 2 else ""}
            # keep the replay of the first violation next to the seeded change
            for ln in lines:
                if ln.startswith("VIOLATION"):
                    rp = ln.split("replay=")[1].strip()
                    if os.path.exists(rp):
                        os.makedirs(os.path.join(VERIF, "seeded", a.name), exist_ok=True)
                        shutil.copy(rp, os.path.join(VERIF, "seeded", a.name, "replay_" + pid + ".json"))
                    break
        meta["checks"] = results
        meta["caught_by"] = [pid for pid, r in results.items() if r["detected"]]
    finally:
        run(["git", "-C", "/repo", "worktree", "remove", "--force", wt])
    dst = os.path.join(VERIF, "seeded", a.name)
    os.makedirs(dst, exist_ok=True)
    for f in ("patch.diff", "demo.py", "notes.md"):
        if os.path.exists(os.path.join(a.src, f)):
            shutil.copy(os.path.join(a.src, f), os.path.join(dst, f))
    notes = os.path.join(a.src, "notes.md")
    meta["needs_to_manifest"] = open(notes).read()[:1500] if os.path.exists(notes) else ""
    meta["confirmed"] = bool(meta.get("patch_applies") and meta.get("demo_exit_clean") == 0
                             and meta.get("demo_exit_patched") not in (0, None)
                             and meta.get("existing_tests_pass", True))
    with open(os.path.join(dst, "meta.json"), "w") as f:
        json.dump(meta, f, indent=1)
    print(json.dumps({k: meta[k] for k in ("name", "confirmed", "demo_exit_clean", "demo_exit_patched",
                                           "existing_tests_pass", "caught_by") if k in meta}))
    for pid, r in meta.get("checks", {}).items():
        print(f"  {pid}: exit {r['exit']} in {r['wall_s']}s")
        for ln in r["report"][:4]:
            print("     " + ln[:300])
        if r["stderr_tail"]:
            print("     STDERR " + r["stderr_tail"])


if __name__ == "__main__":
    main()
