import os, sys, io, contextlib, collections
os.environ["OMP_NUM_THREADS"]="1"; os.environ["OPENBLAS_NUM_THREADS"]="1"
import numpy as np, quaternion, warnings
warnings.simplefilter("ignore")
import quatica.solver as S
def chi(A):
    f=quaternion.as_float_array(A); C=f[...,0]+1j*f[...,1]; D=f[...,2]+1j*f[...,3]
    return np.block([[C,D],[-D.conj(),C.conj()]])
def qcol(cM):  # first block column of chi -> real vector of the quaternion matrix (N x k) components
    m=cM.shape[0]//2; n=cM.shape[1]//2
    C=cM[:m,:n]; D=cM[:m,n:]
    return np.concatenate([C.real.ravel(),C.imag.ravel(),D.real.ravel(),D.imag.ravel()])
units=[quaternion.quaternion(1,0,0,0),quaternion.quaternion(0,1,0,0),quaternion.quaternion(0,0,1,0),quaternion.quaternion(0,0,0,1)]
def fro(A): return np.sqrt(np.sum(quaternion.as_float_array(A)**2))
def mm(A,B): 
    cM=chi(A)@chi(B); m=A.shape[0]; n=B.shape[1]
    C=cM[:m,:n]; D=cM[:m,n:]
    return quaternion.as_quat_array(np.stack([C.real,C.imag,D.real,D.imag],axis=-1))
def krylov_min(A,b,x0,m):
    r0=b-mm(A,x0)
    if fro(r0)==0: return 0.0
    W=[]; w=r0
    cols=[]
    for j in range(m):
        W.append(w)
        for u in units:
            cols.append(quaternion.as_float_array(mm(A,w*u)).ravel())
        w=mm(A,w); 
        nw=fro(w); 
        if nw==0: break
        w=w/nw
    M=np.array(cols).T
    y,res,rk,sv=np.linalg.lstsq(M,quaternion.as_float_array(r0).ravel(),rcond=None)
    return np.linalg.norm(M@y-quaternion.as_float_array(r0).ravel())
worst=collections.defaultdict(float); fails=collections.Counter(); ex=[]
for seed in range(150):
    rng=np.random.default_rng(seed)
    n=int(rng.integers(1,7))
    A=quaternion.as_quat_array(rng.standard_normal((n,n,4)))+ (3.0 if seed%2 else 0.0)*np.eye(n)
    b=quaternion.as_quat_array(rng.standard_normal((n,1,4)))
    prev=np.zeros((n,1),dtype=np.quaternion); prevres=1.0
    for cap in range(0,n):
        buf=io.StringIO()
        with contextlib.redirect_stdout(buf):
            x,info=S.QGMRESSolver(tol=1e-14,max_iter=cap,verbose=True).solve(A,b)
        lucky='Lucky' in buf.getvalue()
        true=fro(mm(A,x)-b)/fro(b)
        worst['truth']=max(worst['truth'],abs(true-info['residual'])/(1+true))
        if lucky: fails['lucky']+=1; break
        cyc=info['iterations']
        opt=krylov_min(A,b,prev,cyc)/fro(b)
        gap=(true-opt)
        worst['optgap_rel']=max(worst['optgap_rel'],gap/max(opt,1e-14)) if opt>1e-12 else worst['optgap_rel']
        worst['optgap_abs']=max(worst['optgap_abs'],gap)
        if true>opt*(1+1e-8)+1e-12: fails['opt']+=1; ex.append((seed,n,cap,cyc,true,opt))
        if true>prevres*(1+1e-10)+1e-13: fails['mono']+=1; ex.append((seed,n,cap,'mono',true,prevres))
        h=info['residual_history']
        if abs(h[-1][2]-true)>1e-10*(1+true): fails['hist_last']+=1
        prev=x; prevres=true
print(dict(worst)); print(dict(fails)); [print(e) for e in ex[:10]]
