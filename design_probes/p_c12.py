import os
os.environ["OMP_NUM_THREADS"]="1"; os.environ["OPENBLAS_NUM_THREADS"]="1"
import numpy as np, quaternion, warnings, collections
warnings.simplefilter("ignore")
from quatica.decomp.qsvd import rand_qsvd, pass_eff_qsvd
def chi(A):
    f=quaternion.as_float_array(A); C=f[...,0]+1j*f[...,1]; D=f[...,2]+1j*f[...,3]
    return np.block([[C,D],[-D.conj(),C.conj()]])
def unchi(M):
    m=M.shape[0]//2;n=M.shape[1]//2
    C=M[:m,:n];D=M[:m,n:]
    return quaternion.as_quat_array(np.stack([C.real,C.imag,D.real,D.imag],axis=-1))
def runit(rng,n):
    G=quaternion.as_quat_array(rng.standard_normal((n,n,4)))
    Q,_=np.linalg.qr(chi(G))
    # qr of adjoint is not structured in general; instead use polar via svd of structured matrix: U V^H structured
    U,s,Vh=np.linalg.svd(chi(G)); 
    return unchi((chi(G)@np.linalg.inv((Vh.conj().T*s)@Vh)))
def mm(A,B): return unchi(chi(A)@chi(B))
def H(A): return A.conj().T
def fro(A): return np.sqrt(np.sum(quaternion.as_float_array(A)**2))
fails=collections.Counter(); tot=0; ex=collections.Counter()
examples={}
for seed in range(1500):
    rng=np.random.default_rng(seed)
    m,n=int(rng.integers(1,9)),int(rng.integers(1,9))
    k=min(m,n); r=int(rng.integers(0,k+1))
    sig=np.sort(rng.uniform(0.5,3,size=k))[::-1]; sig[r:]=0
    if rng.random()<0.3 and r>=2: sig[1]=sig[0]
    U=runit(rng,m); V=runit(rng,n)
    S=np.zeros((m,n),dtype=np.quaternion)
    for i in range(k): S[i,i]=sig[i]
    A=mm(mm(U,S),H(V))
    R=int(rng.integers(1,k+1)); P=int(rng.integers(0,11)); q=int(rng.integers(0,4))
    for name in ('rand','pass'):
        np.random.seed(seed)
        tot+=1
        try:
            if name=='rand': Uq,s,Vq=rand_qsvd(A,R,oversample=P,n_iter=q)
            else: Uq,s,Vq=pass_eff_qsvd(A,R,oversample=P,n_passes=q+2)
        except Exception as e:
            ex[(name,type(e).__name__)]+=1; examples.setdefault((name,'exc'),(seed,m,n,r,R,P,q,str(e)[:80])); continue
        bad=[]
        if Uq.shape!=(m,R) or Vq.shape!=(n,R) or len(s)!=R: bad.append('shape')
        else:
            if fro(mm(H(Uq),Uq)-np.eye(R))>1e-8: bad.append('orthU')
            if fro(mm(H(Vq),Vq)-np.eye(R))>1e-8: bad.append('orthV')
            if np.any(s<-1e-12) or np.any(np.diff(s)>1e-10): bad.append('order')
            if np.any(s>sig[:R]*(1+1e-8)+1e-10): bad.append('interlace')
            Sd=np.zeros((R,R),dtype=np.quaternion)
            for i in range(R): Sd[i,i]=s[i]
            err=fro(A-mm(mm(Uq,Sd),H(Vq))); opt=np.sqrt(np.sum(sig[R:]**2))
            if err<opt-1e-8: bad.append('below_opt')
            if err>fro(A)*(1+1e-8)+1e-10: bad.append('above_norm')
            if r<=R and err>1e-7*max(1,fro(A)): bad.append('inexact_lowrank')
        for b in bad:
            fails[(name,b)]+=1; examples.setdefault((name,b),(seed,m,n,r,R,P,q))
print('total',tot); print('exceptions',dict(ex)); print('fails',dict(fails))
for k,v in examples.items(): print(k,v)
