#!/bin/bash
# usage: eval_wave.sh <wave tag e.g. w9B> <outdir>
tag=$1; out=$2
declare -A T
T[C04]="tests/unit/test_qgmres_simple.py tests/unit/test_qgmres_accuracy.py tests/unit/test_qgmres_basics.py"
T[C12]="tests/unit/test_rand_qsvd.py tests/unit/test_pass_eff_qsvd.py"
T[C13]="tests/unit/test_higher_order_ns.py"
T[C14]="tests/decomp tests/unit/test_basic_algebra.py"
T[C19]="tests/unit/test_power_iteration_simple.py tests/unit/test_power_iteration_synthetic.py"
T[C20]="tests/unit/test_power_iteration_nonhermitian_validation.py tests/unit/test_tensor_quaternion_basics.py tests/unit/test_rank.py"
cd /verif
for d in $out/mut*; do
  p=$(head -1 $d/notes.md | sed 's/.*\(C[0-9][0-9]\).*/\1/')
  n=$(basename $d)
  /venv/bin/python tools_seeded.py $p $d $p-$tag-$n --tests "${T[$p]}" 2>&1 | grep -v WARNING
done
