import os, sys, io, contextlib, collections
os.environ["OMP_NUM_THREADS"]="1"; os.environ["OPENBLAS_NUM_THREADS"]="1"
import numpy as np, quaternion, warnings
warnings.simplefilter("ignore")
import quatica.solver as S
def chi(A):
    f=quaternion.as_float_array(A); C=f[...,0]+1j*f[...,1]; D=f[...,2]+1j*f[...,3]
    return np.block([[C,D],[-D.conj(),C.conj()]])
def unchi(M):
    m=M.shape[0]//2;n=M.shape[1]//2
    C=M[:m,:n];D=M[:m,n:]
    return quaternion.as_quat_array(np.stack([C.real,C.imag,D.real,D.imag],axis=-1))
def polar(rng,n):
    G=chi(quaternion.as_quat_array(rng.standard_normal((n,n,4)))); U,s,Vh=np.linalg.svd(G)
    return G@np.linalg.inv((Vh.conj().T*s)@Vh)
def fro(M): return np.linalg.norm(M)/np.sqrt(2)   # chi doubles
fails=collections.Counter(); ex=[]; stats=collections.Counter(); ratios=[]
orig=np.random.randn
for seed in range(400):
    rng=np.random.default_rng(seed)
    kind=['rsp','rsp','hyb','cgne'][seed%4]
    m,n=int(rng.integers(1,8)),int(rng.integers(1,8))
    if kind!='rsp' and m<n: m,n=n,m
    k=min(m,n); cond=10.0**rng.integers(0,4)
    sig=np.geomspace(1,1/cond,k) if k>1 else np.array([1.0])
    Sg=np.zeros((2*m,2*n),dtype=complex)
    for i in range(k): Sg[i,i]=sig[i]; Sg[m+i,n+i]=sig[i]
    cA=polar(rng,m)@Sg@polar(rng,n).conj().T; A=unchi(cA)
    tol=10.0**(-int(rng.integers(3,9)))
    rec=[]
    def rr(*s):
        v=orig(*s); rec.append(v); return v
    np.random.randn=rr
    np.random.seed(seed)
    try:
        if kind=='rsp':
            bs=int(rng.integers(1,k+1)); cs=['qr','spd'][int(rng.integers(0,2))]
            X,info=S.RandomizedSketchProjectPseudoinverse(block_size=bs,max_iter=int(rng.choice([5,50,400])),tol=tol,column_solver=cs).compute(A)
            rn=info['residual_norms']; s=8
        elif kind=='hyb':
            X,info=S.HybridRSPNewtonSchulz(r=int(rng.integers(1,k+1)),p=int(rng.integers(2,9)),T=int(rng.integers(1,6)),tol=tol,max_iter=int(rng.choice([5,50,300]))).compute(A)
            rn=info['residual_norms']; s=min(6,n)
        else:
            X,info=S.CGNEQSolver(tol=tol,max_iter=500).compute(A); rn=info['residual_norms']
    except Exception as e:
        ex.append((seed,kind,m,n,repr(e)[:80])); np.random.randn=orig; continue
    np.random.randn=orig
    cX=chi(X); stats[(kind,bool(info['converged']))]+=1
    if kind=='cgne':
        true=fro(np.eye(2*n)-cX@cA)/np.sqrt(n)
        if rn and abs(rn[-1]-true)>1e-10*(1+np.linalg.norm(cX)*np.linalg.norm(cA)): fails['cgne_truth']+=1
        if any(rn[i+1]>rn[i]*(1+1e-10)+1e-15 for i in range(len(rn)-1)): fails['cgne_mono']+=1; 
        if not info['converged']: fails['cgne_notconv']+=1; ex.append((seed,'cgne notconv',m,n,cond,tol,rn[-1] if rn else None))
        continue
    col = (m>=n)
    d = n if col else m
    Pi=quaternion.as_quat_array(np.stack(rec[:4],axis=-1)); cP=chi(Pi)
    if rn:
        prox = fro(cP-cX@cA@cP)/fro(cP) if col else fro(cP-cA@cX@cP)/fro(cP)
        if abs(prox-rn[-1])>1e-10*(1+np.linalg.norm(cX)*np.linalg.norm(cA)): fails[kind+'_truth']+=1; ex.append((seed,kind,'truth',prox,rn[-1]))
    if info['converged']:
        E=(np.eye(2*n)-cX@cA) if col else (np.eye(2*m)-cA@cX)
        true=fro(E)/np.sqrt(d)
        ratios.append((true/max(rn[-1],1e-300),kind,m,n,Pi.shape[1]))
        pinv=np.linalg.pinv(cA)
        dist=fro(cX-pinv)
        if dist>100*tol*cond*np.linalg.norm(pinv,2): fails[kind+'_dist']+=1; ex.append((seed,kind,'dist',dist,tol,cond))
print(dict(stats)); print('fails',dict(fails))
ratios.sort(reverse=True); print('top ratios true/proxy',ratios[:8])
for e in ex[:12]: print(e)
