"""`qsim check <id>`: run a batch of seeded simulated runs for one property, triage,
minimise and replay violations, write the evidence file."""

import json
import os
import sys
import time

from . import REPO_ROOT, VERIF_ROOT, engine

LEVELS = {"C04": "fault_enumeration", "C12": "exploration", "C13": "exploration",
          "C14": "exploration", "C19": "exploration", "C20": "fault_enumeration"}

COMPONENTS = {
    "real": ["quatica/* (all solvers, decompositions, kernels, data_gen) from the working tree of "
             + REPO_ROOT, "NumPy", "SciPy", "numpy-quaternion", "MT19937 behind np.random"],
    "stub": ["SimClock in place of quatica.solver.time", "simulated clients (the harness issues the calls)",
             "recording pass-through wrappers around np.random.randn / np.random.seed",
             "optional ulp-jitter wrappers around quat_matmat/timesQsparse/normQsparse",
             "forced ok=False wrapper around _solve_spd_quat and forced ValueError from quaternion_lu (fault kinds)"],
}


def _copy(t):
    return json.loads(json.dumps(t))


def _safe(name):
    return "".join(ch if (ch.isalnum() or ch in "-_.:+") else "_" for ch in name)[:150]


def _drop_step(trace, idx):
    """Remove step idx together with everything that depends on it (calls on a removed
    object, repeats / reissues of it, consumers of its result); re-index references."""
    steps = [(j, _copy(s)) for j, s in enumerate(trace["steps"])]
    dead = {idx}
    st = trace["steps"][idx]
    if st["k"] == "new":
        dead |= {j for j, s in steps if s.get("obj") == st["obj"]}

    def refs(s):
        r = [s["of"]] if s["k"] in ("repeat", "reissue", "mutate") else []
        r += [a["of"] for a in s.get("args", []) if isinstance(a, dict) and a.get("gen") == "result"]
        return r

    changed = True
    while changed:
        changed = False
        for j, s in steps:
            if j not in dead and any(r in dead for r in refs(s)):
                dead.add(j)
                changed = True
    kept = [(j, s) for j, s in steps if j not in dead]
    used = {s.get("obj") for j, s in kept if s["k"] != "new"}
    kept = [(j, s) for j, s in kept if not (s["k"] == "new" and s["obj"] not in used and not s.get("keep"))]
    remap = {j: i for i, (j, s) in enumerate(kept)}
    out = []
    for j, s in kept:
        if s["k"] in ("repeat", "reissue", "mutate"):
            s["of"] = remap[s["of"]]
        if s.get("args"):
            s["args"] = [dict(a, of=remap[a["of"]]) if isinstance(a, dict) and a.get("gen") == "result" else a
                         for a in s["args"]]
        out.append(s)
    t = {k: v for k, v in trace.items() if k != "steps"}
    t = _copy(t)
    t["steps"] = out
    return t


def _generic_moves(trace):
    n = len(trace["steps"])
    for idx in range(n - 1, -1, -1):
        yield _drop_step(trace, idx)
    for idx, s in enumerate(trace["steps"]):
        for fld in ("clock", "readonly"):
            if s.get(fld):
                t = _copy(trace)
                t["steps"][idx].pop(fld)
                yield t
        for fk in list((s.get("fault") or {}).keys()):
            t = _copy(trace)
            t["steps"][idx]["fault"].pop(fk)
            if not t["steps"][idx]["fault"]:
                t["steps"][idx].pop("fault")
            yield t


def shrink(pools, pm, trace, target_cls, known, max_cands=300, log=None):
    """Delta-debug `trace` while a violation of class `target_cls` (and not a known
    finding) persists.  Returns (minimised trace, its violation)."""
    def probe(t):
        if not t["steps"]:
            return None
        res = engine.run_trace(pools, t)
        if "harness_error" in res:
            return None
        for v in res["viol"]:
            if v["cls"][:2] == target_cls[:2] and v["cls"][3:] == target_cls[3:] \
                    and not engine.match_known(known, pm.finding_tags(t, v)):
                if v.get("explicit"):
                    continue
                return v
        return None

    best = trace
    bestv = probe(best)
    if bestv is None:
        return trace, None
    tried = 0
    seen = {engine.trace_digest(best)}
    progress = True
    while progress and tried < max_cands:
        progress = False
        moves = list(_generic_moves(best))
        if hasattr(pm, "simplify"):
            moves += list(pm.simplify(best))
        for cand in moves:
            if tried >= max_cands:
                break
            d = engine.trace_digest(cand)
            if d in seen:
                continue
            seen.add(d)
            tried += 1
            v = probe(cand)
            if v is not None:
                best, bestv = cand, v
                progress = True
                break
    if log is not None:
        log.append(f"shrink: {tried} candidates, {len(trace['steps'])} -> {len(best['steps'])} steps")
    return best, bestv


def _explicit_trace(trace, v):
    if v.get("explicit"):
        t = {k: val for k, val in trace.items() if k != "steps"}
        t["steps"] = _copy(v["explicit"])
        t["from_sweep"] = True
        t["mode"] = "explicit"
        return t
    return trace


XINTERP_SEEDS = ("0", "4242")


def xinterp_diff(jobs, hashseeds=XINTERP_SEEDS):
    """Execute the jobs in two fresh interpreters that differ only in PYTHONHASHSEED and compare
    the per-step (outcome, exception, value digest) signatures.  Returns ([{job, step, detail}], err)."""
    a, err = engine.xrun_jobs(jobs, hashseeds[0])
    if err:
        return [], "cross-interpreter run failed: " + err
    b, err = engine.xrun_jobs(jobs, hashseeds[1])
    if err:
        return [], "cross-interpreter run failed: " + err
    out = []
    for j in jobs:
        k = engine.job_key(j)
        sa, sb = a.get(k), b.get(k)
        if isinstance(sa, str) or isinstance(sb, str) or sa is None or sb is None:
            return [], f"cross-interpreter run: harness error in job {k}: {sa if isinstance(sa, str) else sb}"
        for i, (x, y) in enumerate(zip(sa, sb)):
            if x != y:
                st = j["trace"]["steps"][i] if i < len(j["trace"]["steps"]) else {}
                out.append({"job": j, "step": i,
                            "detail": f"step {i} ({st.get('fn') or st.get('meth') or st.get('k')}) gives {x[0]}/{x[1]} with value "
                                      f"digest {str(x[2])[:12]} under PYTHONHASHSEED={hashseeds[0]} and {y[0]}/{y[1]} / "
                                      f"{str(y[2])[:12]} under PYTHONHASHSEED={hashseeds[1]}: the result depends on the "
                                      f"interpreter's hash randomisation, not only on configuration and arguments"})
                break
    return out, None


def run_check(pid, tier, seed, budget=None, time_cap=None, repo_root=None, write_evidence=True,
              nworkers=None, verbose=True):
    t0 = time.time()
    pm = engine.prop_module(pid)
    jobs, worlds = pm.gen_jobs(seed, tier, budget)
    known = [e for e in engine.load_known_findings() if e["property"] == pid]
    pools = engine.Pools(worlds, nworkers=nworkers, repo_root=repo_root)
    time_cap = time_cap or (600 if tier == "quick" else 3 * 3600)
    results = []
    harness_errors = []
    try:
        futs = [(job, pools.submit(job)) for job in jobs]
        skipped = 0
        for job, fut in futs:
            if time.time() - t0 > time_cap:
                if fut.cancel():
                    skipped += 1
                    continue
            try:
                res = fut.result(timeout=engine.RUN_TIMEOUT_S * 4)
            except Exception as e:  # noqa: BLE001
                res = {"seed": job["seed"], "world": job["trace"]["world"],
                       "harness_error": f"{type(e).__name__}: {e}"}
            res["job"] = job
            if "harness_error" in res:
                harness_errors.append(res)
            else:
                results.append(res)
        # determinism preamble: re-execute a sample and compare history digests
        ndet = min(len(results), 12 if tier == "quick" else 48)
        step = max(1, len(results) // max(1, ndet))
        sample = results[::step][:ndet]
        det_mismatch = []
        refuts = [(r, pools.submit({"seed": r["seed"], "trace": r["job"]["trace"]})) for r in sample]
        for r, fut in refuts:
            try:
                r2 = fut.result(timeout=engine.RUN_TIMEOUT_S * 4)
            except Exception as e:  # noqa: BLE001
                harness_errors.append({"seed": r["seed"], "harness_error": f"determinism rerun: {e}"})
                continue
            if r2.get("hist") != r["hist"]:
                det_mismatch.append(r["seed"])
        # ---- triage
        if hasattr(pm, "cross_check"):
            for res, v in pm.cross_check(results):
                res["viol"].append(v)
        out_lines = []
        known_hits = {}
        unknown = {}
        for res in results:
            trace = res["job"]["trace"]
            for v in res["viol"]:
                if v["oracle"] == "HARNESS":
                    harness_errors.append({"seed": res["seed"], "harness_error": v["detail"]})
                    continue
                tags = pm.finding_tags(trace, v)
                e = engine.match_known(known, tags)
                if e is not None:
                    k = known_hits.setdefault(e["id"], {"entry": e, "count": 0, "example": None})
                    k["count"] += 1
                    if k["example"] is None:
                        k["example"] = {"seed": res["seed"], "detail": v["detail"][:300]}
                else:
                    unknown.setdefault(tuple(v["cls"]), []).append((res, v))
        reported = []
        shrink_log = []
        xi = {"jobs": 0, "differing": 0}
        for cls, items in sorted(unknown.items()):
            shrink_log.append(f"unlisted violation class {list(cls)}: {len(items)} occurrence(s), "
                              f"e.g. seed {items[0][0]['seed']}: {items[0][1]['detail'][:160]}")
        for cls, items in sorted(unknown.items())[:6]:
            res, v = min(items, key=lambda it: (len(it[0]["job"]["trace"]["steps"]), it[0]["seed"]))
            trace = _explicit_trace(res["job"]["trace"], v)
            if v.get("other_world"):
                trace = dict(trace, compare_world=v["other_world"])
            mt, mv = shrink(pools, pm, trace, list(cls), known, log=shrink_log)
            if mv is None:
                harness_errors.append({"seed": res["seed"],
                                       "harness_error": f"violation {cls} did not reproduce on re-execution: {v['detail'][:300]}"})
                continue
            path = engine.save_replay(mt, mv, _safe(f"{pid}-{res['seed']}-{'-'.join(str(c) for c in cls[1:] if c)}") + ".json")
            code, rr, txt = engine.replay_fresh(path)
            if code != 1 or not rr or not any(x["cls"][:2] == list(cls)[:2] for x in rr.get("violations", [])):
                harness_errors.append({"seed": res["seed"],
                                       "harness_error": f"minimised trace {path} did not reproduce in a fresh interpreter (exit {code}): {txt[-400:]}"})
                continue
            reported.append({"cls": list(cls), "seed": res["seed"], "replay": path,
                             "detail": mv["detail"], "count": len(items),
                             "steps": len(mt["steps"])})
        # ---- interpreter identity (properties that ask for it): a sample of the batch is executed
        # again in two fresh interpreters that differ only in PYTHONHASHSEED
        if hasattr(pm, "interpreter_sample") and not os.environ.get("QSIM_NO_XINTERP"):
            xjobs = pm.interpreter_sample(jobs, tier)
            xi["jobs"] = len(xjobs)
            diffs, err = xinterp_diff(xjobs)
            if err:
                harness_errors.append({"seed": None, "harness_error": err})
            xi["differing"] = len(diffs)
            seen_cls = set()
            for d_ in diffs:
                tr = d_["job"]["trace"]
                v = {"oracle": "interpreter_identity", "step": d_["step"], "detail": d_["detail"], "prop": pid}
                tgt = pm.violation_target(tr, v) if hasattr(pm, "violation_target") else ""
                cls = [pid, "interpreter_identity", (tr["steps"][d_["step"]] or {}).get("k"), "none", tgt]
                v["cls"] = cls
                if engine.match_known(known, pm.finding_tags(tr, v)) is not None or tuple(cls) in seen_cls:
                    continue
                seen_cls.add(tuple(cls))
                shrink_log.append(f"unlisted violation class {cls}: e.g. seed {d_['job'].get('seed')}: {d_['detail'][:200]}")
                if len(seen_cls) > 3:
                    continue
                # minimise: drop steps one at a time while the two interpreters still disagree
                cur = json.loads(json.dumps(tr))
                idx = len(cur["steps"]) - 1
                while idx >= 0 and len(cur["steps"]) > 1:
                    cand = _drop_step(cur, idx)
                    if cand is not None:
                        dd, e2 = xinterp_diff([{"seed": cur.get("seed"), "trace": cand}])
                        if not e2 and dd:
                            cur = cand
                    idx -= 1
                dd, e2 = xinterp_diff([{"seed": cur.get("seed"), "trace": cur}])
                if e2 or not dd:
                    harness_errors.append({"seed": cur.get("seed"), "harness_error": f"interpreter_identity difference did not reproduce: {e2}"})
                    continue
                v = dict(v, step=dd[0]["step"], detail=dd[0]["detail"])
                path = os.path.join(VERIF_ROOT, "replays", _safe(f"{pid}-{cur.get('seed')}-interpreter_identity-{tgt}") + ".json")
                os.makedirs(os.path.dirname(path), exist_ok=True)
                with open(path, "w") as f:
                    json.dump({"trace": cur, "violation": v, "xinterp": {"hashseeds": list(XINTERP_SEEDS)}, "repo": REPO_ROOT},
                              f, indent=1, sort_keys=True)
                code, rr, txt = engine.replay_fresh(path)
                if code != 1:
                    harness_errors.append({"seed": cur.get("seed"), "harness_error": f"replay of {path} did not reproduce (exit {code}): {txt[-300:]}"})
                    continue
                reported.append({"cls": cls, "seed": cur.get("seed"), "replay": path, "detail": v["detail"],
                                 "count": sum(1 for x in diffs if True), "steps": len(cur["steps"])})
    finally:
        pools.close()
    wall = time.time() - t0
    # ---- evidence
    ev = build_evidence(pid, tier, seed, pm, jobs, results, worlds, wall, known_hits, reported,
                        harness_errors, det_mismatch, len(sample), skipped, shrink_log)
    if hasattr(pm, "interpreter_sample"):
        ev["coverage"]["interpreter_identity"] = dict(xi, hashseeds=list(XINTERP_SEEDS),
                                                      rule="the sample is executed in two fresh interpreters differing "
                                                           "only in PYTHONHASHSEED; per-step outcome and value digests must agree")
    if write_evidence:
        # runs against a scratch copy (QSIM_REPO=<worktree>, used for the seeded changes) must not
        # overwrite the evidence of /repo itself: theirs goes next to the replays (git-ignored)
        evdir = os.path.join(VERIF_ROOT, "evidence") if os.path.realpath(REPO_ROOT) == "/repo" \
            else os.path.join(VERIF_ROOT, "replays", "evidence_scratch")
        os.makedirs(evdir, exist_ok=True)
        with open(os.path.join(evdir, f"{pid}.json"), "w") as f:
            json.dump(ev, f, indent=1, sort_keys=True, default=str)
    # ---- report
    if verbose:
        print(f"[qsim] {pid} tier={tier} seed={seed}: {len(results)} runs in {wall:.1f}s "
              f"({len(results) / max(wall, 1e-9) * 3600:.0f} runs/h), worlds={list(worlds)}, "
              f"{sum(r['nsteps'] for r in results)} steps, {ev['coverage']['distinct_nontrivial']} distinct non-trivial")
        for ln in shrink_log:
            print("[qsim] " + ln)
    for kid, k in sorted(known_hits.items()):
        print(f"KNOWN-FINDING: property={pid} {k['entry']['what']} [{kid}; {k['count']} occurrence(s) "
              f"this run, e.g. seed {k['example']['seed']}]")
    for r in reported:
        print(f"VIOLATION property={pid} replay={r['replay']}")
        print(f"  oracle={r['cls'][1]} seed={r['seed']} occurrences={r['count']} minimised_steps={r['steps']}: {r['detail'][:400]}")
    if reported:
        return 1
    if harness_errors or det_mismatch:
        for h in harness_errors[:10]:
            print(f"HARNESS-ERROR seed={h.get('seed')}: {str(h.get('harness_error'))[:1500]}", file=sys.stderr)
        if det_mismatch:
            print(f"HARNESS-ERROR determinism: history digests differ on re-execution for seeds {det_mismatch[:10]}",
                  file=sys.stderr)
        return 2
    return 0


def build_evidence(pid, tier, seed, pm, jobs, results, worlds, wall, known_hits, reported,
                   harness_errors, det_mismatch, ndet, skipped, shrink_log):
    sigs = set()
    nontriv = set()
    probes = {}
    faults_cfg = {}
    faults_fired = {}
    sim_s = 0.0
    clock_reads = 0
    steps = 0
    per_world = {}
    statsum = {}
    obj_states = set()
    obj_histories = set()
    rng_positions = set()
    from .gens import shape_of
    for res in results:
        trace = res["job"]["trace"]
        per_obj = {}
        for s_, r_ in zip(trace["steps"], res["steps"]):
            if r_.get("obj_after"):
                obj_states.add(r_["obj_after"])
            if r_.get("rng_before"):
                rng_positions.add(r_["rng_before"])
            if s_["k"] in ("call", "bad") and "obj" in s_:
                a0 = s_["args"][0] if s_.get("args") else None
                per_obj.setdefault(s_["obj"], []).append(
                    (s_["k"], s_.get("meth"), str(shape_of(a0)), "+".join(sorted(s_.get("fault") or {})), r_.get("ok")))
        cfgs = {s_["obj"]: (s_["cls"], json.dumps(s_.get("cfg", {}), sort_keys=True))
                for s_ in trace["steps"] if s_["k"] == "new"}
        for o, h in per_obj.items():
            obj_histories.add((cfgs.get(o), tuple(h)))
        sig = pm.signature(trace, res)
        sigs.add(sig)
        if pm.nontrivial(trace, res):
            nontriv.add(sig)
        per_world[res["world"]] = per_world.get(res["world"], 0) + 1
        for s, r in zip(trace["steps"], res["steps"]):
            steps += 1
            for k, c in (r.get("probes") or {}).items():
                probes[k] = probes.get(k, 0) + c
            sim_s += r.get("sim_s") or 0.0
            clock_reads += r.get("clock_reads") or 0
            f = (s.get("fault") or {}) if s["k"] != "sweep" else {}
            for fk in f:
                faults_cfg[fk] = faults_cfg.get(fk, 0) + 1
                fired = r.get("fault_fired") if fk in ("line", "linalg_fail") else True
                if fired:
                    faults_fired[fk] = faults_fired.get(fk, 0) + 1
            if s["k"] != "sweep" and (s.get("clock") or f.get("clock")):
                faults_cfg["clock_script"] = faults_cfg.get("clock_script", 0) + 1
                if r.get("clock_reads"):
                    faults_fired["clock_script"] = faults_fired.get("clock_script", 0) + 1
            if s.get("readonly"):
                faults_cfg["readonly_args"] = faults_cfg.get("readonly_args", 0) + 1
                faults_fired["readonly_args"] = faults_fired.get("readonly_args", 0) + 1
            if s["k"] in ("rng", "clock"):
                kind = "world_event_" + s["k"]
                faults_cfg[kind] = faults_cfg.get(kind, 0) + 1
                faults_fired[kind] = faults_fired.get(kind, 0) + 1
        for k, val in (res.get("stats") or {}).items():
            if isinstance(val, (int, float)):
                statsum[k] = statsum.get(k, 0) + val
            elif isinstance(val, dict):
                d = statsum.setdefault(k, {})
                for kk, c in val.items():
                    if isinstance(c, (int, float)):
                        d[kk] = d.get(kk, 0) + c
    if statsum.get("sweep_sub"):
        faults_cfg["line(sweep)"] = statsum["sweep_sub"]
        faults_fired["line(sweep)"] = statsum.get("sweep_fired", 0)
    samples = []
    for res in results[:: max(1, len(results) // 3)][:3]:
        samples.append({"seed": res["seed"], "world": res["world"], "trace": res["job"]["trace"],
                        "outcomes": [{k: v for k, v in st.items() if k in ("k", "ok", "exc", "lines", "fault_fired", "draws")}
                                     for st in res["steps"][:8]]})
    unresolved = []
    cov = {
        "evaluations": len(results),
        "distinct_nontrivial": len(nontriv),
        "distinct_traces": len(sigs),
        "distinct_states_measure": {
            "distinct_per_object_call_histories": len(obj_histories),
            "distinct_solver_state_digests": len(obj_states),
            "distinct_global_rng_states_at_invoke": len(rng_positions),
            "measure": "per-object history = (class, configuration, [(op, method, problem shape, fault kinds, outcome)...]); "
                       "solver state = SHA-256 of the solver's __dict__ after a call; RNG state = digest of np.random.get_state() at invoke"},
        "rule": pm.RULE if hasattr(pm, "RULE") else
        "one evaluation = one seeded simulated run (a trace of steps executed in a forked world); "
        "distinct = distinct trace signature (pm.signature); non-trivial per pm.nontrivial",
        "samples": samples,
        "steps_executed": steps,
        "runs_per_hour": round(len(results) / max(wall, 1e-9) * 3600),
        "slowest_run_wall_s": round(max([float(r.get("wall") or 0.0) for r in results] or [0.0]), 2),
        "run_wall_limit_s": engine.RUN_TIMEOUT_S,
        "seeds": {"base": seed, "first": jobs[0]["seed"] if jobs else None,
                  "last": jobs[-1]["seed"] if jobs else None, "generated": len(jobs),
                  "skipped_by_time_cap": skipped},
        "simulated_seconds": round(sim_s, 3),
        "clock_reads": clock_reads,
        "fault_kinds_configured": faults_cfg,
        "fault_kinds_fired": faults_fired,
        "probes_hit": probes,
        "worlds": per_world,
        "reference_evaluations": sum(r.get("nref", 0) for r in results),
        "reference_cache_hits": sum(r.get("nref_cached", 0) for r in results),
        "components": COMPONENTS,
        "determinism_selftest": {"reexecuted": ndet, "mismatches": len(det_mismatch)},
        "known_findings_hit": {k: v["count"] for k, v in known_hits.items()},
        "violations_reported": reported,
        "harness_errors": [str(h.get("harness_error"))[:300] for h in harness_errors[:5]],
        "stats": statsum,
        "shrink_log": shrink_log,
        "exhaustive": False,
    }
    if hasattr(pm, "evidence_extra"):
        cov.update(pm.evidence_extra(jobs, results))
    return {
        "property_id": pid, "tier": tier, "seed": int(seed), "level": LEVELS[pid],
        "coverage": cov, "wall_s": round(wall, 2), "violations": len(reported),
        "assumptions": [
            "bit-level comparisons assume the NumPy/OpenBLAS build and CPU dispatch target of this image, one BLAS thread",
            "crash points are Python line events in repository code; a failure inside a C kernel is modelled at the calling line",
            "the harness's own quaternion arithmetic (qsim/qalg.py, complex-adjoint map + NumPy/LAPACK) is trusted",
            "seeded sampling: a clean batch is evidence, not proof",
        ],
    }
