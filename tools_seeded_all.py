#!/usr/bin/env python3
"""Re-runs every seeded change under /verif/seeded against the current checks (detection
regression).  For each: apply patch in a scratch worktree, run the quick check of its property
(and those listed in meta['also']) with QSIM_REPO, record exit codes.  Does not re-run the
existing tests (that was done when the change was confirmed).  Output: seeded/REGRESSION.json"""
import glob, json, os, subprocess, sys, time
ROOT = os.path.dirname(os.path.abspath(__file__))
PY = "/venv/bin/python"
out = {}
names = sorted(os.path.basename(os.path.dirname(p)) for p in glob.glob(os.path.join(ROOT, "seeded", "*", "meta.json")))
JOBS = 4
only = [a for a in sys.argv[1:] if not a.startswith("--jobs=")]
for a in sys.argv[1:]:
    if a.startswith("--jobs="):
        JOBS = int(a.split("=")[1])


def one(name):
    d = os.path.join(ROOT, "seeded", name)
    meta = json.load(open(os.path.join(d, "meta.json")))
    if meta.get("obsolete_after"):
        out[name] = {"skipped": "obsolete after " + meta["obsolete_after"]}
        print(name, "skipped (obsolete after a later fix)")
        return
    wt = f"/tmp/sr_{name}"
    subprocess.run(["git", "-C", "/repo", "worktree", "remove", "--force", wt], capture_output=True)
    subprocess.run(["git", "-C", "/repo", "worktree", "add", "--detach", wt, "HEAD"], capture_output=True, check=True)
    try:
        r = subprocess.run(["git", "-C", wt, "apply", os.path.join(d, "patch.diff")], capture_output=True, text=True)
        if r.returncode != 0:   # the repository moved on (later fix: commits): try a 3-way merge of the patch
            r = subprocess.run(["git", "-C", wt, "apply", "--3way", os.path.join(d, "patch.diff")], capture_output=True, text=True)
            subprocess.run(["git", "-C", wt, "reset", "-q"], capture_output=True)
        if r.returncode != 0:
            out[name] = {"applies": False, "err": r.stderr[-300:]}
            print(name, "PATCH DOES NOT APPLY")
            return
        env = dict(os.environ, QSIM_REPO=wt, OMP_NUM_THREADS="1")
        res = {}
        budget = []
        pids = [meta["property"]] + [p_ for p_ in (meta.get("caught_by") or []) if p_ != meta["property"]]
        if meta.get("caught_by") and meta["property"] not in meta["caught_by"]:
            pids = list(meta["caught_by"])
        for pid in pids:
            t0 = time.time()
            p = subprocess.run([PY, "-B", "-m", "qsim", "check", pid, "--tier", "quick"] + budget, cwd=ROOT, env=env,
                               capture_output=True, text=True, timeout=7200)
            res[pid] = {"exit": p.returncode if (p.returncode != 1 or "VIOLATION property=" in p.stdout) else 2, "wall_s": round(time.time() - t0, 1),
                        "classes": [ln.split("class ")[1].split(":")[0] for ln in p.stdout.splitlines() if "unlisted violation class" in ln][:6]}
        out[name] = {"applies": True, "checks": res, "caught": any(v["exit"] == 1 for v in res.values())}
        print(name, {k: v["exit"] for k, v in res.items()}, flush=True)
    finally:
        subprocess.run(["git", "-C", "/repo", "worktree", "remove", "--force", wt], capture_output=True)


from concurrent.futures import ThreadPoolExecutor
with ThreadPoolExecutor(JOBS) as tp:
    list(tp.map(one, [n for n in names if not only or n in only]))
if only:      # partial run: merge into the existing file instead of replacing it
    try:
        prev = json.load(open(os.path.join(ROOT, "seeded", "REGRESSION.json")))
        prev.update(out)
        out = prev
    except Exception:
        pass
out = dict(sorted(out.items()))
json.dump(out, open(os.path.join(ROOT, "seeded", "REGRESSION.json"), "w"), indent=1)
print(sum(1 for v in out.values() if isinstance(v, dict) and v.get("caught")), "of", sum(1 for v in out.values() if isinstance(v, dict) and not v.get("skipped")), "caught")
