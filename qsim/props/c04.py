"""C04 - Q-GMRES returns a true solution and truthful convergence information.

Workload, faults and oracles: DESIGN section 3, C04.
"""

import math

from .common import (gens, rand_clock, BaseHooks, V, finite, fnum, is_qmat, key, logspace_sigma, np, qalg,
                     round_sig, sub_rng)

PROP = "C04"
CLOCKS = [[0.0], [1e-3, -3600.0, 1e6], [1e6], [-1.0], [5e-4, 0.0, 0.0, 7200.0], [1e-9]]
WORLDS_QUICK = ("pkg", "flat")
WORLDS_THOROUGH = ("pkg", "flat", "pkg_then_flat", "flat_then_pkg")
FAMILIES = ("generic", "herm", "unitary", "cI", "I_lowrank", "tri", "diagrep", "spread", "perm", "near_I", "pure", "intmat")
B_KINDS = ("gauss", "gauss", "eigvec", "zero", "unit", "Ax_int", "col_of_A", "imag")
SWEEP_FOCUS = ["solve", "_solve_lower_triangular_quat", "_solve_upper_triangular_quat",
               "quaternion_lu", "quat_matmat"]


# ------------------------------------------------------------------ generation

def gen_system(R, nmax):
    n = R.choice([1, 1, 2, 2, 3, 3, 4, 5, 6, 7, 8, 9, 10][: 3 + 2 * nmax]) if nmax < 5 \
        else min(nmax, R.choice([1, 2, 2, 3, 3, 4, 4, 5, 6, 7, 8, 9, 10]))
    n = max(1, min(n, nmax))
    fam = R.choice(FAMILIES + ("near_I",))
    s = R.randrange(10 ** 6)
    cond = 10 ** R.choice([0, 1, 1, 2, 3])
    if fam == "generic":
        A = {"gen": "psvd", "m": n, "n": n, "seed": s,
             "sigma": [round_sig(v) for v in logspace_sigma(R, n, cond)]}
    elif fam == "herm":
        mags = logspace_sigma(R, n, cond)
        mode = R.choice(["pos", "neg", "mixed"])
        lam = [round_sig(v if mode == "pos" else -v if mode == "neg" else v * R.choice([1, -1]))
               for v in mags]
        A = {"gen": "herm", "n": n, "lam": lam, "seed": s}
        if n >= 2 and mode == "mixed" and R.random() < 0.5:
            # Hermitian indefinite with a tiny or zero leading diagonal entry: symmetric elimination
            # WITHOUT pivoting is unstable here, with pivoting it is harmless
            A0 = A
            A = {"gen": "set00", "of": A, "v": R.choice([1e-9, 1e-12, 0.0, 1e-6])}
            # ... as long as the modified matrix stays well conditioned (for a diagonal or reducible
            # matrix the replaced entry IS an eigenvalue: cond 1e9, outside what the oracles are
            # calibrated for - DESIGN 6.3)
            if qalg.cond(gens.build(A)) > 1e3:
                A = A0
    elif fam == "unitary":
        A = {"gen": "unitary", "n": n, "seed": s}
    elif fam == "cI":
        c = R.choice([1.0, -2.5, 0.5, [0.6, 0.0, 0.8, 0.0], [1.0, 2.0, -1.0, 0.5], 3.0])
        A = {"gen": "cI", "n": n, "c": c}
    elif fam == "I_lowrank":
        A = {"gen": "I_lowrank", "n": n, "r": R.randint(0, max(0, min(n - 1, 3))), "seed": s,
             "eps": R.choice([0.1, 0.3, 0.5])}
    elif fam == "tri":
        A = {"gen": "tri", "n": n, "seed": s, "upper": R.random() < 0.5,
             "off": R.choice([0.1, 0.3])}
    elif fam == "intmat":
        # integer-valued entries (a sparse operand may then store integer components)
        A = {"gen": "add", "a": {"gen": "cI", "n": n, "c": float(R.choice([4, 6, -5]))},
             "b": {"gen": "int", "m": n, "n": n, "seed": s, "lo": -1, "hi": 1}}
    elif fam == "pure":
        # entries confined to a subspace of H: purely imaginary (zero real parts, optionally a
        # tiny leading entry so that pivoting matters) or purely real
        x = R.random()
        if x < 0.45:
            A = {"gen": "imagq", "m": n, "n": n, "seed": s}
            if R.random() < 0.5 and n >= 2:
                # (for n = 1 the "tiny leading entry" IS the matrix: a uniform scale of 1e-9, times the
                # run's own scale, leaves the quantified range 1e-6..1e6 - DESIGN 6.3)
                A["tiny00"] = R.choice([1e-3, 1e-6, 1e-9])
        elif x < 0.6:
            A = {"gen": "realq", "m": n, "n": n, "seed": s}
        else:
            # any non-empty subset of the four components (a sparse operand then has components
            # that are entirely empty)
            mask = R.choice([[1, 0, 0, 1], [1, 1, 0, 0], [1, 0, 1, 0], [0, 0, 0, 1], [0, 1, 0, 0], [0, 0, 1, 1],
                             [1, 1, 1, 0], [0, 1, 0, 1]])
            A = {"gen": "maskq", "m": n, "n": n, "seed": s, "mask": mask}
    elif fam == "near_I":
        # c (I + eps G): every cycle reduces the residual by about eps, so the restart
        # residual passes through every decade (what an almost exact preconditioner gives)
        eps = R.choice([1e-1, 1e-2, 1e-2, 1e-3])
        A = {"gen": "add", "a": {"gen": "cI", "n": n, "c": 1.0},
             "b": {"gen": "scale", "c": eps, "of": {"gen": "gauss", "m": n, "n": n, "seed": s}}}
    elif fam == "perm":
        # zero-diagonal unitary matrices (cyclic shift, anti-diagonal, random derangement-ish
        # permutation) with unit-quaternion entries: v^H A v = 0 for unit-vector right-hand
        # sides, so the Hessenberg matrix has exact zeros on its diagonal (Givens on a zero pivot)
        kind = R.choice(["shift", "anti", "random"])
        if kind == "shift":
            pidx = [(i + 1) % n for i in range(n)]
        elif kind == "anti":
            pidx = [n - 1 - i for i in range(n)]
        else:
            pidx = list(range(n))
            R.shuffle(pidx)
        units = [[1.0, 0, 0, 0], [0, 1.0, 0, 0], [0, 0, 1.0, 0], [0.6, 0, 0.8, 0], [0.5, 0.5, 0.5, 0.5], [-1.0, 0, 0, 0]]
        A = {"gen": "perm", "p": pidx, "phases": [R.choice(units) for _ in range(n)]}
    elif fam == "spread":
        # entries of widely different magnitude without unitary mixing (still cond <= 1e3):
        # a diagonal with graded moduli, or a generic block next to a large multiple of I
        if n == 1 or R.random() < 0.5:
            mags = logspace_sigma(R, n, max(cond, 10.0))
            units = [[1.0, 0, 0, 0], [0, 1.0, 0, 0], [0.6, 0, 0.8, 0], [0.5, 0.5, 0.5, 0.5]]
            vals = []
            for v in mags:
                u = R.choice(units)
                vals.append([round_sig(v * c) for c in u])
            R.shuffle(vals)
            A = {"gen": "diagq", "vals": vals}
        else:
            k1 = R.randint(1, n - 1)
            A = {"gen": "blockdiag", "blocks": [
                {"gen": "psvd", "m": k1, "n": k1, "seed": s, "sigma": [round_sig(v) for v in logspace_sigma(R, k1, 3.0)]},
                {"gen": "cI", "n": n - k1, "c": float(R.choice([1e2, 3e2, 30.0]))}]}
    else:  # diagonal with repeated entries
        pool = [1.0, 2.0, -0.5, [0.0, 1.0, 0.0, 0.0], [1.0, 1.0, 0.0, 0.0], [0.5, 0.0, -0.5, 1.0]]
        kd = R.randint(1, min(3, n))
        dist = R.sample(pool, kd)
        A = {"gen": "diagq", "vals": [R.choice(dist) for _ in range(n)]}
    bk = R.choice(B_KINDS if fam != "perm" else ("unit", "unit", "gauss", "Ax_int", "eigvec"))
    sb = R.randrange(10 ** 6)
    if bk == "gauss":
        b = {"gen": "gauss", "m": n, "n": 1, "seed": sb}
    elif bk == "eigvec":
        b = {"gen": "eigvec", "of": A, "k": R.randrange(n)}
    elif bk == "zero":
        b = {"gen": "zeros", "m": n, "n": 1}
    elif bk == "unit":
        b = {"gen": "unitvec", "n": n, "k": R.randrange(n)}
    elif bk == "col_of_A":
        # b = A e_j q: the solution is a single scaled unit vector
        b = {"gen": "mul", "A": A, "x": {"gen": "entry", "m": n, "n": 1, "i": R.randrange(n), "j": 0,
                                         "q": R.choice([[1.0, 0, 0, 0], [0, 2.0, 0, 0], [0.5, -0.5, 1.0, 0.25]])}}
    elif bk == "imag":
        b = {"gen": "imagq", "m": n, "n": 1, "seed": sb}
    else:
        b = {"gen": "mul", "A": A, "x": {"gen": "int", "m": n, "n": 1, "seed": sb}}
    return {"n": n, "family": fam, "bkind": bk, "A": A, "b": b}


def _scaled(spec, k):
    return spec if k == 0 else {"gen": "scale", "of": spec, "c": 10.0 ** k}


def _solve_steps(steps, sysd, scale, tol, prec, cap, storage, jitter, R, tagx=None):
    j = sum(1 for s in steps if s["k"] in ("new", "sweep"))
    A = _scaled(sysd["A"], scale)
    if storage == "sparse":
        A = dict(A, storage="sparse")
        if R.random() < 0.3:
            A["explicit_zeros"] = True
        if sysd["family"] in ("intmat", "perm", "cI") and scale == 0 and R.random() < 0.7:
            A["int_dtype"] = True
    b = _scaled(sysd["b"], scale)
    cfg = {"tol": tol, "max_iter": cap, "preconditioner": None if prec == "none" else prec}
    if R.random() < 0.12:
        cfg["verbose"] = True
    steps.append({"k": "new", "obj": f"s{j}", "cls": "solver.QGMRESSolver", "cfg": cfg})
    call = {"k": "call", "obj": f"s{j}", "meth": "solve", "args": [A, b],
            "tags": dict({"scale": scale, "prec": prec, "cap": cap, "storage": storage,
                          "family": sysd["family"], "bkind": sysd["bkind"]}, **(tagx or {}))}
    if jitter:
        call["fault"] = {"jitter": R.randrange(2 ** 31)}
    if R.random() < 0.15:
        # the solve runs under a clock script (stalled, jumping forwards / backwards, coarse): Q-GMRES
        # has no business reading the clock for a decision
        call["clock"] = rand_clock(R)
    steps.append(call)
    return call


SWEEP_CHUNKS = 4


def gen_trace(seed, world, tier, mode=None, chunk=None):
    R = sub_rng(seed, "C04")
    nmax = 6 if tier == "quick" else 10
    if mode is None:
        x = R.random()
        mode = ("caps" if x < 0.46 else "rebuf" if x < 0.49 else "orth" if x < 0.54 else "abs_thr" if x < 0.58 else "strided" if x < 0.80 else "lu_fail" if x < 0.87
                else "utri_zero" if x < 0.94 else "caps_big")
    steps = []
    tol = 10.0 ** -R.choice([2, 4, 6, 8, 10, 12])
    storage = R.choice(["dense", "dense", "sparse"])
    if mode in ("caps", "caps_big"):
        sysd = gen_system(R, 10 if mode == "caps_big" else min(nmax, 6))
        if mode == "caps_big" and R.random() < 0.25 and sysd["family"] in ("generic", "herm", "unitary"):
            # a mid-size system (n = 12..20): only the default cap and two partial caps are run
            nb = R.randint(12, 20)
            if sysd["family"] == "generic":
                sysd["A"] = dict(sysd["A"], m=nb, n=nb,
                                 sigma=[round_sig(v) for v in logspace_sigma(R, nb, 10 ** R.choice([0, 1, 2, 3]))])
            elif sysd["family"] == "herm":
                wrapped = sysd["A"].get("gen") == "set00"
                inner = dict(sysd["A"]["of"] if wrapped else sysd["A"], n=nb,
                             lam=[round_sig(v * R.choice([1, -1])) for v in logspace_sigma(R, nb, 10 ** R.choice([0, 1, 2]))])
                sysd["A"] = dict(sysd["A"], of=inner) if wrapped else inner
            else:
                sysd["A"] = dict(sysd["A"], n=nb)
            sysd["b"] = {"gen": "gauss", "m": nb, "n": 1, "seed": R.randrange(10 ** 6)}
            sysd["bkind"] = "gauss"
            sysd["n"] = nb
            sysd["mid"] = True
        n = sysd["n"]
        jitter = R.random() < 0.5
        precs = R.choice([("none",), ("none", "left_lu"), ("none", "left_lu"), ("left_lu",)])
        for prec in precs:
            caps = [None] + list(range(n)) if prec == "none" else [None, 0]
            if sysd.get("mid"):
                caps = [None, R.randrange(n), n - 1] if prec == "none" else [None]
            for cap in caps:
                _solve_steps(steps, sysd, 0, tol, prec, cap, storage, jitter, R)
        sc = R.choice([0, 0, -6, -3, 3, 6, R.randint(-6, 6), R.randint(-6, -1)])   # every decade of the range
        if sc != 0:
            # scaled twin of the system; half of the time at a tight tolerance, where absolute
            # thresholds inside the iteration (if any) are most likely to interfere
            tol_s = tol if R.random() < 0.5 else R.choice([1e-10, 1e-12])
            for prec in precs:
                _solve_steps(steps, sysd, sc, tol_s, prec, None, storage, jitter, R)
                if tol_s != tol:
                    _solve_steps(steps, sysd, 0, tol_s, prec, None, storage, jitter, R)
    elif mode == "rebuf":
        # the client keeps ONE array for its matrix (and one for its right-hand side) and refills
        # them in place between solves: a different system of the same size, then the first one
        # shifted by a multiple of I; on one solver object or on fresh ones.  What a solve returns
        # and reports must be about the CURRENT contents (identity-keyed memos go stale here).
        sys1 = gen_system(R, min(nmax, 6))
        n = sys1["n"]
        s2 = R.randrange(10 ** 6)
        sys2 = {"n": n, "family": "generic", "bkind": "gauss",
                "A": {"gen": "psvd", "m": n, "n": n, "seed": s2,
                      "sigma": [round_sig(v) for v in logspace_sigma(R, n, 10 ** R.choice([0, 1, 2]))]},
                "b": {"gen": "gauss", "m": n, "n": 1, "seed": s2 + 1}}
        sys3 = dict(sys1, A={"gen": "add", "a": sys1["A"], "b": {"gen": "cI", "n": n, "c": float(R.choice([3.0, -2.0, 5.0]))}},
                    family="generic", bkind="gauss", b={"gen": "gauss", "m": n, "n": 1, "seed": s2 + 2})
        prec = R.choice(["left_lu", "left_lu", "none"])
        shared = R.random() < 0.5
        first_new = None
        for si_, sy in ((1, sys1), (2, sys2), (3, sys3), (1, sys1)):
            c = _solve_steps(steps, sy, 0, tol, prec, None, storage, False, R, tagx={"sys": si_})
            c["args"] = [dict(c["args"][0], buf="A"), dict(c["args"][1], buf="b")]
            if shared:
                if first_new is None:
                    first_new = c["obj"]
                else:
                    steps.pop(-2)          # drop the fresh constructor: same solver object throughout
                    c["obj"] = first_new
    elif mode == "orth":
        # directed at loss of orthogonality in the Arnoldi basis: the largest systems of the
        # tier at the top of the conditioning range and the tightest tolerances, default cap
        # (judged by the tight liveness bound and by per-cycle optimality where it applies)
        n = R.randint(8, max(8, nmax + 2))
        cnd = R.choice([1e3, 1e3, 3e2])
        A = {"gen": "psvd", "m": n, "n": n, "seed": R.randrange(10 ** 6),
             "sigma": [round_sig(v) for v in logspace_sigma(R, n, cnd)]}
        sb = R.randrange(10 ** 6)
        b = {"gen": "gauss", "m": n, "n": 1, "seed": sb} if R.random() < 0.5 else \
            {"gen": "mul", "A": A, "x": {"gen": "gauss", "m": n, "n": 1, "seed": sb}}
        sysd = {"n": n, "family": "generic", "bkind": "gauss", "A": A, "b": b}
        _solve_steps(steps, sysd, R.choice([0, 0, 3, -3]), R.choice([1e-12] * 6 + [1e-10]), "none", None,
                     storage, False, R)
    elif mode == "abs_thr":
        # directed at absolute thresholds inside the iteration: a system whose restart residual
        # passes through every decade (c (I + eps G)), at the ends of the scale range and at the
        # tightest tolerances, next to its unscaled twin
        n = R.randint(4, nmax)
        eps = R.choice([1e-1, 3e-2, 1e-2, 3e-3])
        A = {"gen": "add", "a": {"gen": "cI", "n": n, "c": 1.0},
             "b": {"gen": "scale", "c": eps, "of": {"gen": "gauss", "m": n, "n": n, "seed": R.randrange(10 ** 6)}}}
        sb = R.randrange(10 ** 6)
        b = {"gen": "gauss", "m": n, "n": 1, "seed": sb} if R.random() < 0.6 else \
            {"gen": "mul", "A": A, "x": {"gen": "int", "m": n, "n": 1, "seed": sb}}
        sysd = {"n": n, "family": "near_I", "bkind": "gauss", "A": A, "b": b}
        tol_s = R.choice([1e-12, 1e-12, 1e-10])
        prec = R.choice(["none", "none", "none", "left_lu"])
        for sc in (R.choice([-6, -6, 6, -5]), 0):
            _solve_steps(steps, sysd, sc, tol_s, prec, None, storage, False, R)
    elif mode == "lu_fail":
        sysd = gen_system(R, min(nmax, 6))
        _solve_steps(steps, sysd, 0, tol, "none", None, storage, False, R)
        c = _solve_steps(steps, sysd, 0, tol, "left_lu", None, storage, False, R)
        c["fault"] = {"lu_fail": True}
    elif mode == "utri_zero":
        sysd = gen_system(R, min(nmax, 6))
        for idx in sorted({1, R.randint(1, 4), R.randint(1, 12), R.randint(1, 30)}):
            c = _solve_steps(steps, sysd, 0, tol, R.choice(["none", "none", "left_lu"]), None, storage, False, R)
            c["fault"] = {"utri_zero": idx}
    elif mode in ("sweep", "strided"):
        sysd = gen_system(R, 3 if mode == "sweep" else min(nmax, 6))
        prec = "left_lu" if R.random() < 0.7 else "none"
        # some sweeps stop after the first cycle(s): the published residual is then O(1) and a
        # mishandled failure while it is being computed cannot hide behind a converged solve
        cap = None if (prec == "left_lu" and R.random() < 0.7) or R.random() < 0.4 else R.choice([0, 0, 1])
        sc = R.choice([0, 0, 3, -3])
        A = _scaled(sysd["A"], sc)
        A = A if storage == "dense" else dict(A, storage="sparse")
        cfg = {"tol": tol, "max_iter": cap, "preconditioner": None if prec == "none" else prec}
        call = {"k": "call", "obj": "s0", "meth": "solve", "args": [A, _scaled(sysd["b"], sc)],
                "tags": {"scale": sc, "prec": prec, "cap": cap, "storage": storage,
                         "family": sysd["family"], "bkind": sysd["bkind"]}}
        sw = {"k": "sweep", "cls": "solver.QGMRESSolver", "cfg": cfg, "call": call}
        if mode == "sweep" and chunk is not None:
            sw["frac"] = [chunk / SWEEP_CHUNKS, (chunk + 1) / SWEEP_CHUNKS]
        if mode == "strided":
            sw.update({"picks": 40 if tier == "quick" else 80, "focus": SWEEP_FOCUS,
                       "pick_seed": R.randrange(10 ** 6)})
        steps.append(sw)
    else:
        raise ValueError(mode)
    return {"prop": PROP, "seed": seed, "world": world, "mode": mode, "steps": steps}


def gen_jobs(base_seed, tier, budget=None):
    worlds = WORLDS_QUICK if tier == "quick" else WORLDS_THOROUGH
    n_runs = budget or (800 if tier == "quick" else 12000)
    n_sweeps = 6 if tier == "quick" else 60
    jobs = []
    for i in range(n_sweeps):   # the long jobs first, so that they overlap with the rest
        seed = base_seed * 10 ** 6 + 900000 + i
        w = worlds[i % len(worlds)]
        for ch in range(SWEEP_CHUNKS):   # one system, its crash points split over 4 jobs
            jobs.append({"seed": seed, "trace": gen_trace(seed, w, tier, mode="sweep", chunk=ch)})
    for i in range(n_runs):
        seed = base_seed * 10 ** 6 + i
        w = worlds[i % len(worlds)]
        jobs.append({"seed": seed, "trace": gen_trace(seed, w, tier)})
    return jobs, worlds


# ------------------------------------------------------------------ oracles

def _resid(A, b, x):
    nb = qalg.fro(b)
    r = qalg.fro(qalg.mm(A, x) - b)
    return r / nb if nb > 0 else r


class Hooks(BaseHooks):
    def __init__(self, trace):
        super().__init__(trace)
        self.sysmeta = {}
        self.results = []   # (step idx, tags, tol, x, info, resid, faulted)
        self.counts = {"solves": 0, "raised_under_fault": 0, "returned_under_fault": 0,
                       "converged": 0, "breakdown_runs": 0}

    def system(self, step):
        A = self.dense(step["args"][0])
        b = self.dense(step["args"][1])
        k = key(step["args"][0])
        if k not in self.sysmeta:
            sv = qalg.svdvals(A)
            self.sysmeta[k] = {"cond": float(sv[0] / sv[-1]) if sv[-1] > 0 else float("inf"),
                               "norm2": float(sv[0])}
        return A, b, self.sysmeta[k]

    def after_step(self, ex, i, step, rec, viol):
        if step["k"] not in ("call",) or step.get("meth") != "solve":
            return
        A, b, meta = self.system(step)
        n = A.shape[0]
        cfg = ex.objcfg[step["obj"]][1]
        tol, cap = cfg["tol"], cfg["max_iter"]
        prec = cfg.get("preconditioner") or "none"
        fault = step.get("fault") or {}
        hard = ("line" in fault and rec.get("fault_fired")) or fault.get("lu_fail") \
            or (fault.get("utri_zero") is not None and bool(rec["probes"].get("utri_zero_diag_inner")
                                                           or rec["probes"].get("utri_zero_diag_last")))
        self.counts["solves"] += 1
        if rec["probes"].get("gmres_lucky_breakdown"):
            self.counts["breakdown_runs"] += 1
        if rec["ok"] == "exc":
            if "line" in fault and rec.get("fault_fired"):
                self.counts["raised_under_fault"] += 1
                return  # loud failure under an injected fault is allowed (oracle 7)
            viol.append(V("raised", i, f"solve raised {rec.get('exc')}: {rec.get('exc_msg')} "
                                       f"on a nonsingular {n}x{n} system (cond {meta['cond']:.3g})"))
            return
        if hard:
            self.counts["returned_under_fault"] += 1
        val = ex.values[i]
        if not (isinstance(val, tuple) and len(val) == 2 and isinstance(val[1], dict)):
            viol.append(V("shape", i, f"solve returned {type(val).__name__}, expected (x, info)"))
            return
        x, info = val
        if not is_qmat(x, (n, 1)):
            viol.append(V("shape", i, f"x has shape {getattr(x, 'shape', None)}, expected {(n, 1)}"))
            return
        bzero = qalg.fro(b) == 0.0
        xf = qalg.comps(x)
        res_rep = fnum(info.get("residual"))
        conv = bool(info.get("converged"))
        if conv:
            self.counts["converged"] += 1
        if not finite(xf) or not math.isfinite(res_rep):
            viol.append(V("nan", i, f"non-finite output: x finite={finite(xf)}, "
                                    f"info.residual={res_rep} (b zero: {bzero})"))
            return
        true = _resid(A, b, x)
        kappa = 1.0 if prec == "none" else min(meta["cond"], 1e6)
        if bzero:
            # b = 0: the solution is x = 0; the relative residual is reported as 0
            if np.any(xf != 0.0):
                viol.append(V("bzero", i, f"b = 0 but x != 0 (||x|| = {qalg.fro(x):.3g})"))
            if abs(res_rep) > 1e-13:
                viol.append(V("truth", i, f"b = 0: info.residual = {res_rep}"))
        else:
            # oracle 1: truthful residual
            for fld in ("residual", "residual_true"):
                if fld in info:
                    rv = fnum(info[fld])
                    if not (abs(rv - true) <= 1e-10 * (1.0 + true) * max(1.0, min(meta["cond"], 1e6) * 1e-3)):
                        viol.append(V("truth", i, f"info.{fld} = {rv:.6e} but ||Ax-b||/||b|| = {true:.6e}"))
                        break
            # oracle 2: sound flag
            if conv and not (true <= 10.0 * kappa * tol + 1e-13 * max(1.0, meta["cond"])):
                viol.append(V("sound_flag", i,
                              f"converged=True with true residual {true:.3e} > 10*kappa*tol "
                              f"(tol {tol:g}, kappa {kappa:.3g}, n {n}, cap {cap})"))
        # oracle 3: residual history
        hist = info.get("residual_history") or []
        try:
            col = [float(h[2]) for h in hist]
        except Exception:  # noqa: BLE001
            col = None
            viol.append(V("history", i, "residual_history is not a list of [m, res_ym, res_xm]"))
        if col is not None and isinstance(info.get("iterations"), (int, np.integer)) and not bzero:
            # the record is self-consistent: one history row per cycle run, numbered 1..k
            if len(col) != int(info["iterations"]):
                viol.append(V("history", i, f"iterations = {info['iterations']} but the history has {len(col)} rows"))
            else:
                try:
                    idx = [int(h[0]) for h in hist]
                except Exception:  # noqa: BLE001
                    idx = None
                if idx is not None and idx != list(range(1, len(idx) + 1)):
                    viol.append(V("history", i, f"history rows are numbered {idx}, expected 1..{len(idx)}"))
        if col:
            if not all(math.isfinite(c) for c in col):
                viol.append(V("nan", i, f"non-finite residual history {col[:6]}"))
            elif fault.get("utri_zero") is None:
                # (a forced zero diagonal makes one cycle's iterate non-optimal by
                # construction; under that fault only oracles 1 and 2 are demanded)
                for a, c in zip(col, col[1:]):
                    if c > a * (1 + 1e-10) + 1e-13 * max(1.0, meta["cond"]):
                        viol.append(V("history_monotone", i,
                                      f"residual history increases: {a:.6e} -> {c:.6e}"))
                        break
                if prec == "none" and not hard and not bzero and fault.get("utri_zero") is None \
                        and abs(col[-1] - true) > 1e-9 * (1 + true) * max(1.0, meta["cond"] * 1e-3):
                    viol.append(V("history_last", i,
                                  f"last history entry {col[-1]:.6e} is not the residual of the "
                                  f"returned x ({true:.6e})"))
        its = info.get("iterations")
        if isinstance(its, (int, np.integer)) and its > n:
            viol.append(V("liveness", i, f"iterations = {its} > n = {n}"))
        # the iteration cap: the loop leaves after cycle min(cap + 1, n) (the property observes
        # "x for every iteration cap" as the restart iterate of every cycle)
        if cap is not None and not hard and isinstance(its, (int, np.integer)) and its > min(cap + 1, n):
            viol.append(V("cap", i, f"max_iter = {cap} but {its} cycles were run (n = {n})"))
        # oracle 5: bounded liveness once faults stop (also under forced LU failure:
        # the documented fallback is the unpreconditioned solve)
        live_ok = (not ("line" in fault)) and fault.get("utri_zero") is None and cap is None \
            and meta["cond"] <= 1e3 and tol >= 1e-10
        # Unpreconditioned solves stop on the TRUE relative residual, so after at most n cycles it
        # is below tol itself (plus the rounding of the residual evaluation) - also for the
        # tightest tolerances: 4365 unchanged-tree solves at tol = 1e-12, cond <= 1e3, n <= 10,
        # scales 1e-6..1e6 all converged with residual <= 8.3e-13 (the floor 4 eps cond is never
        # needed there; the largest residual seen relative to eps cond is 0.37).
        if (not ("line" in fault)) and fault.get("utri_zero") is None and not fault.get("lu_fail") \
                and cap is None and prec == "none" and meta["cond"] <= 1e3 and not bzero:
            if not (true <= tol * (1 + 1e-6) + 4 * 2.3e-16 * meta["cond"]):
                viol.append(V("liveness", i,
                              f"default cap, no preconditioner, cond {meta['cond']:.3g}, tol {tol:g}: true residual "
                              f"{true:.3e} after {its} cycles (n = {n}) is not below tol"))
        elif live_ok and not bzero:
            if not (true <= 10.0 * kappa * tol):
                viol.append(V("liveness", i,
                              f"default cap, cond {meta['cond']:.3g}, tol {tol:g}: true residual "
                              f"{true:.3e} after {its} cycles (n = {n}) exceeds 10*kappa*tol"))
        self.results.append({"i": i, "tags": step.get("tags", {}), "tol": tol, "cap": cap,
                             "prec": prec, "x": x, "info": info, "true": true, "hard": bool(hard),
                             "akey": key(step["args"][0]), "bkey": key(step["args"][1]),
                             "jit": "jitter" in fault, "n": n, "cond": meta["cond"], "bzero": bzero})

    def after_run(self, ex, viol):
        # oracle 4: per-cycle optimality along the cap chain (unpreconditioned, fault-free)
        groups = {}
        for r in self.results:
            if r["hard"] or r["bzero"]:
                continue
            groups.setdefault((r["akey"], r["bkey"], r["prec"], r["tol"]), []).append(r)
        for (ak, bk, prec, tol), rs in groups.items():
            if prec != "none":
                continue
            by_cycle = {}
            for r in rs:
                its = r["info"].get("iterations")
                if isinstance(its, (int, np.integer)) and its >= 1:
                    by_cycle.setdefault(int(its), r)
            if not by_cycle:
                continue
            any_r = rs[0]
            A = self._built[ak]
            b = self._built[bk]
            nb = qalg.fro(b)
            n = any_r["n"]
            for m in sorted(by_cycle):
                r = by_cycle[m]
                if m == 1:
                    xprev = qalg.zeros(n, 1)
                elif (m - 1) in by_cycle:
                    xprev = by_cycle[m - 1]["x"]
                else:
                    continue
                if r["cond"] > 1e3:
                    continue
                opt, rho = qalg.krylov_min_residual(A, b, xprev, m, with_rho=True)
                opt /= nb
                # conditioning of the oracle quantity itself: the same minimum from a restart
                # iterate perturbed at the 1e-13 level (far below anything the property
                # distinguishes).  If that moves the minimum, the minimum is not a stable
                # number to compare against.
                pr = np.random.Generator(np.random.PCG64(m + 17))
                xpert = qalg.from_comps(qalg.comps(xprev) * (1.0 + 1e-13 * pr.standard_normal(qalg.comps(xprev).shape)))
                opt2 = qalg.krylov_min_residual(A, b, xpert, m) / nb
                unstable = abs(opt - opt2) > 1e-6 * max(opt, opt2) + 1e-14
                opt = max(opt, opt2)
                if rho < 1e-5 or unstable:
                    # the m-dimensional Krylov space is (nearly) invariant before its last
                    # vector: Arnoldi then normalises remainders of relative size rho, which
                    # amplifies rounding by 1/rho, and the attained minimum is not a stable
                    # quantity (a 1-ulp perturbation moved it from 1.3e-7 to 6.9e-6 in one
                    # thorough run).  Such cycles are judged by oracles 2, 3 and 5 only.
                    self.counts["optimality_skipped_near_invariant"] = \
                        self.counts.get("optimality_skipped_near_invariant", 0) + 1
                    continue
                self.counts["optimality_checked"] = self.counts.get("optimality_checked", 0) + 1
                if r["true"] > opt * (1 + 1e-8) + 1e-12 * max(1.0, r["cond"]):
                    viol.append(V("optimality", r["i"],
                                  f"cycle {m}: residual {r['true']:.6e} exceeds the minimum "
                                  f"{opt:.6e} over x_{m-1} + K_{m}(A, r_{m-1})"))
                    break
        # oracle 6: preconditioning / scaling never change the solution
        base = {}
        for r in self.results:
            if r["hard"] or r["cap"] is not None or r["bzero"]:
                continue
            sysid = (r["tags"].get("family"), r["n"], r["tol"], r["tags"].get("storage"), r["tags"].get("sys"))
            base.setdefault(sysid, []).append(r)
        for sysid, rs in base.items():
            ref = rs[0]
            for r in rs[1:]:
                if r["cond"] > 1e3 or r["tol"] < 1e-10:
                    continue
                c = 10.0 ** (r["tags"].get("scale", 0) - ref["tags"].get("scale", 0))
                # x solves (cA)x = cb: same x for every c
                nx = max(qalg.fro(ref["x"]), 1e-300)
                d = qalg.fro(r["x"] - ref["x"]) / nx
                bound = 2.0 * r["cond"] * (r["true"] + ref["true"]) + 1e-12 * r["cond"]
                if d > bound and d > 20 * r["cond"] ** 2 * r["tol"]:
                    viol.append(V("same_solution", r["i"],
                                  f"solution differs between configurations (prec {ref['prec']}/"
                                  f"{r['prec']}, scale ratio {c:g}): rel. diff {d:.3e} > {bound:.3e}"))

    def stats(self, ex):
        probes = {}
        sites = {}
        nsub = nfired = 0
        for r in ex.recs:
            for k, c in (r.get("probes") or {}).items():
                probes[k] = probes.get(k, 0) + c
            if r["k"] == "sweep":
                nsub += r["n_sub"]
                nfired += r["n_fired"]
                for s, c in r["sites"].items():
                    sites[s] = sites.get(s, 0) + c
        return dict(self.counts, probes=probes, sweep_sub=nsub, sweep_fired=nfired, sites=sites)


# ------------------------------------------------------------------ triage / shrinking

def finding_tags(trace, v):
    st = {}
    steps = v.get("explicit") or trace["steps"]
    idx = v.get("step", -1)
    if v.get("explicit"):
        st = steps[-1]
    elif 0 <= idx < len(steps):
        st = steps[idx]
        if st.get("k") == "sweep":
            st = st["call"]
    tags = dict(st.get("tags") or {})
    tags["oracle"] = v["oracle"]
    tags["fault"] = "+".join(sorted((st.get("fault") or {}).keys())) or "none"
    return tags


def signature(trace, result):
    """Distinctness key of a run for the evidence counts."""
    sig = [trace.get("mode")]
    for s in trace["steps"]:
        if s["k"] == "call":
            t = s.get("tags", {})
            sig.append((t.get("family"), t.get("bkind"), t.get("prec"), t.get("cap"),
                        t.get("scale"), t.get("storage"), "j" if (s.get("fault") or {}).get("jitter") is not None else "",
                        tuple(s["args"][0].get("sigma", [])) if isinstance(s["args"][0], dict) else ()))
        elif s["k"] == "sweep":
            t = s["call"].get("tags", {})
            sig.append(("sweep", t.get("family"), t.get("bkind"), t.get("prec"), s.get("picks")))
    return repr(sig)


def nontrivial(trace, result):
    """A run is non-trivial if it reached a fault path or a rare branch: a fired line
    fault, a forced LU failure, jitter, a breakdown, or a structurally early-invariant
    Krylov space (family/b kind)."""
    st = result.get("stats", {})
    if st.get("sweep_fired") or st.get("breakdown_runs") or (st.get("probes") or {}).get("gmres_lu_fallback"):
        return True
    for s in trace["steps"]:
        if s["k"] == "call":
            if s.get("fault"):
                return True
            t = s.get("tags", {})
            if t.get("family") in ("cI", "I_lowrank", "diagrep", "unitary") or t.get("bkind") in ("eigvec", "zero", "unit"):
                return True
            if t.get("prec") == "left_lu" or t.get("scale"):
                return True
    return False


def _unwrap(spec):
    """Strip scale / storage wrappers: returns (base spec, rewrap function)."""
    if isinstance(spec, dict) and spec.get("gen") == "scale":
        base, rw = _unwrap(spec["of"])
        return base, (lambda b, _s=spec, _rw=rw: dict(_s, of=_rw(b)))
    if isinstance(spec, dict) and spec.get("storage"):
        st = spec["storage"]
        base = {k: v for k, v in spec.items() if k != "storage"}
        return base, (lambda b, _st=st: dict(b, storage=_st))
    return spec, (lambda b: b)


def _shrink_dim(A):
    g = A.get("gen")
    if g == "psvd" and A["m"] == A["n"] and A["n"] > 1:
        return dict(A, m=A["n"] - 1, n=A["n"] - 1, sigma=A["sigma"][: A["n"] - 1])
    if g == "herm" and A["n"] > 1:
        return dict(A, n=A["n"] - 1, lam=A["lam"][: A["n"] - 1])
    if g in ("unitary", "tri", "cI") and A["n"] > 1:
        return dict(A, n=A["n"] - 1)
    if g == "I_lowrank" and A["n"] > 1:
        return dict(A, n=A["n"] - 1, r=min(A["r"], A["n"] - 2))
    if g == "diagq" and len(A["vals"]) > 1:
        return dict(A, vals=A["vals"][:-1])
    return None


def _pair_moves(Aspec, bspec):
    """Moves that keep the system consistent: shrink n on both sides, or replace A
    (and the b that depends on it) by a simpler family."""
    A, rwA = _unwrap(Aspec)
    b, rwb = _unwrap(bspec)
    from ..gens import shape_of
    shp = shape_of(A)
    if not shp:
        return []
    n = shp[0]
    cands = []
    A2 = _shrink_dim(A)
    if A2 is not None:
        cands.append((A2, n - 1))
    if A.get("gen") != "cI":
        cands.append(({"gen": "cI", "n": n, "c": 1.0}, n))
    if A.get("gen") == "psvd" and any(v != 1.0 for v in A["sigma"]):
        cands.append((dict(A, sigma=[1.0] * n), n))
    out = []
    for A3, n3 in cands:
        g = b.get("gen")
        if g == "gauss":
            b3 = dict(b, m=n3)
        elif g == "zeros":
            b3 = dict(b, m=n3)
        elif g == "unitvec":
            b3 = dict(b, n=n3, k=min(b["k"], n3 - 1))
        elif g == "eigvec":
            b3 = dict(b, of=A3, k=min(b.get("k", 0), n3 - 1))
        elif g == "mul":
            x3 = dict(b["x"], m=n3)
            if x3.get("gen") == "entry":
                x3["i"] = min(x3["i"], n3 - 1)
            b3 = dict(b, A=A3, x=x3)
        elif g == "imagq":
            b3 = dict(b, m=n3)
        else:
            continue
        out.append((rwA(A3), rwb(b3)))
    return out


def evidence_extra(jobs, results):
    sweeps = {}
    for r in results:
        t = r["job"]["trace"]
        if t.get("mode") != "sweep":
            continue
        st = r["steps"][0]
        e = sweeps.setdefault(t["seed"], {"system": t["steps"][0]["call"]["tags"], "world": t["world"],
                                          "executed_lines_K": st.get("K"), "crash_points_run": 0,
                                          "raised": 0, "returned": 0, "chunks": 0})
        e["crash_points_run"] += st.get("n_sub") or 0
        e["raised"] += st.get("n_raised") or 0
        e["returned"] += st.get("n_returned") or 0
        e["chunks"] += 1
    full = [e for e in sweeps.values() if e["chunks"] == SWEEP_CHUNKS and e["crash_points_run"] == e["executed_lines_K"]]
    return {"crash_point_sweeps": {"systems_swept": len(sweeps), "complete": len(full),
                                   "exhaustive_per_swept_solve": len(full) == len(sweeps) and bool(sweeps),
                                   "total_crash_points": sum(e["crash_points_run"] for e in sweeps.values()),
                                   "detail": list(sweeps.values())[:8]},
            "unreachable_in_domain": ["zero diagonal in UtriangleQsparse (reached only through the forced "
                                      "utri_zero fault, DESIGN 6.4)"]}


def simplify(trace):
    """Property-specific shrink moves (after generic step dropping)."""
    out = []
    steps = trace["steps"]
    for si, s in enumerate(steps):
        if s["k"] != "call":
            continue
        for (A3, b3) in _pair_moves(s["args"][0], s["args"][1]):
            t = _copy(trace)
            t["steps"][si]["args"] = [A3, b3]
            out.append(t)
        for ai, spec in enumerate(s["args"]):
            for cand in _simpler_specs(spec):
                t = _copy(trace)
                t["steps"][si]["args"][ai] = cand
                out.append(t)
        if (s.get("fault") or {}).get("line"):
            k = s["fault"]["line"]
            for kk in sorted({1, k // 2, k - 1}):
                if 1 <= kk < k:
                    t = _copy(trace)
                    t["steps"][si]["fault"]["line"] = kk
                    out.append(t)
    for si, s in enumerate(steps):
        if s["k"] == "new":
            cfg = s.get("cfg", {})
            if cfg.get("tol") not in (1e-6,):
                t = _copy(trace)
                t["steps"][si]["cfg"]["tol"] = 1e-6
                out.append(t)
    return out


def _copy(t):
    import json
    return json.loads(json.dumps(t))


def _simpler_specs(spec):
    """Single-argument moves that never change a dimension."""
    if not isinstance(spec, dict):
        return []
    out = []
    g = spec.get("gen")
    if g == "scale":
        out.append(spec["of"])
    if spec.get("storage") == "sparse":
        s2 = dict(spec)
        s2.pop("storage")
        out.append(s2)
    if g == "cI" and spec["c"] != 1.0:
        out.append(dict(spec, c=1.0))
    if g == "gauss" and spec["n"] == 1:
        out.append({"gen": "unitvec", "n": spec["m"], "k": 0})
    if g in ("eigvec", "mul"):
        inner = spec.get("of") or spec.get("A")
        from ..gens import shape_of
        shp = shape_of(inner)
        if shp:
            out.append({"gen": "gauss", "m": shp[0], "n": 1, "seed": 1})
            out.append({"gen": "unitvec", "n": shp[0], "k": 0})
    return out
