#!/usr/bin/env python3
"""Rewrites section 8 of DESIGN.md from /verif/seeded/*/meta.json."""
import glob, json, os
ROOT = os.path.dirname(os.path.abspath(__file__))
rows = []
for mp in sorted(glob.glob(os.path.join(ROOT, "seeded", "*", "meta.json"))):
    m = json.load(open(mp))
    notes = (m.get("needs_to_manifest") or "").strip().splitlines()
    title = notes[0].lstrip("# ").strip() if notes else ""
    caught = ", ".join(m.get("caught_by") or []) or "**missed**"
    orc = ""
    for pid, r in (m.get("checks") or {}).items():
        for ln in r.get("report", []):
            if "unlisted violation class" in ln:
                orc = ln.split("class ")[1].split(":")[0]
                break
        if orc:
            break
    rows.append((m["name"], m["property"], title[:110], "yes" if m.get("confirmed") else "NO", caught, orc[:90], m.get("history", "")))
hdr = """## 8. Which checks catch which seeded changes

Each change below was written by a fresh sub-agent that was given only the text of one
property and a scratch git worktree of the repository (nothing from /verif), with the
request to break the property in a way that needs something specific to manifest while
the code still compiles and the existing tests still pass. Each was confirmed here in a
scratch worktree (`tools_seeded.py`): the patch applies, its demonstration passes on the
unchanged tree and fails with the patch, the relevant existing test files pass with the
patch; then the quick check of the property was run against the patched tree
(`QSIM_REPO=<worktree>`). Everything is kept under `/verif/seeded/<name>/`
(`patch.diff`, `demo.py`, `notes.md`, `meta.json`, and the replay file of the reported
violation). "history" says what had to be strengthened before the change was caught.

| change | property | what it does | confirmed | caught by (quick) | first reported class | history |
|---|---|---|---|---|---|---|
"""
body = "\n".join("| " + " | ".join(str(c) for c in r) + " |" for r in rows)
p = os.path.join(ROOT, "DESIGN.md")
s = open(p).read()
a = s.index("## 8. Which checks catch which seeded changes")
extra = ""
ep = os.path.join(ROOT, "seeded", "NOTES.md")
if os.path.exists(ep):
    extra = "\n\n" + open(ep).read()
open(p, "w").write(s[:a] + hdr + body + extra + "\n")
print(f"{len(rows)} seeded changes, {sum(1 for r in rows if r[4] != '**missed**')} caught")
