import os, sys, hashlib, io, contextlib, itertools, json
os.environ["OMP_NUM_THREADS"]="1"; os.environ["OPENBLAS_NUM_THREADS"]="1"
STYLE=sys.argv[1]
import numpy as np, quaternion, warnings
warnings.simplefilter("ignore")
if STYLE=='pkg':
    import quatica, quatica.solver as S, quatica.utils as U
else:
    sys.path.insert(0,'/repo/quatica')
    import solver as S, utils as U
def rq(seed,m,n): return quaternion.as_quat_array(np.random.default_rng(seed).standard_normal((m,n,4)))
def dig(o,h=None):
    top=h is None
    if top: h=hashlib.sha256()
    if isinstance(o,np.ndarray): h.update(str((o.shape,str(o.dtype))).encode()); h.update(np.ascontiguousarray(o).tobytes())
    elif isinstance(o,dict):
        for k in sorted(o):
            if k in ('iteration_times','total_time'): continue
            h.update(k.encode()); dig(o[k],h)
    elif isinstance(o,(list,tuple)):
        h.update(b'['); [dig(x,h) for x in o]; h.update(b']')
    elif isinstance(o,(float,np.floating)): h.update(np.float64(o).tobytes())
    else: h.update(repr(o).encode())
    if top: return h.hexdigest()[:12]
class FT:
    def __init__(s): s.t=0.0
    def time(s): s.t+=0.5; return s.t
S.time=FT()
cfgs={
 'NS':(lambda: S.NewtonSchulzPseudoinverse(max_iter=30,tol=1e-10),'compute',False),
 'HON':(lambda: S.HigherOrderNewtonSchulzPseudoinverse(max_iter=8),'compute_hon',False),
 'GMRES':(lambda: S.QGMRESSolver(tol=1e-10),'solve',True),
 'GMRESlu':(lambda: S.QGMRESSolver(tol=1e-10,preconditioner='left_lu'),'solve',True),
 'RSPqr':(lambda: S.RandomizedSketchProjectPseudoinverse(block_size=3,max_iter=30,tol=1e-8),'compute',False),
 'RSPspd':(lambda: S.RandomizedSketchProjectPseudoinverse(block_size=3,max_iter=30,tol=1e-8,column_solver='spd'),'compute',False),
 'HYB':(lambda: S.HybridRSPNewtonSchulz(r=2,p=3,T=2,max_iter=20,tol=1e-8),'compute',False),
 'CGNE':(lambda: S.CGNEQSolver(tol=1e-10,max_iter=40,preconditioner_rank=1),'compute',False),
}
pool=[(1,1),(3,2),(5,4),(2,2)]
def call(obj,meth,square,pi):
    m,n=pool[pi]
    if square: n=m
    if meth=='compute_hon' or meth=='compute': 
        if isinstance(obj,(S.HybridRSPNewtonSchulz,S.CGNEQSolver)) and m<n: m,n=n,m
    A=rq(100+pi,m,n); A0=A.copy()
    np.random.seed(1000+pi)
    with contextlib.redirect_stdout(io.StringIO()):
        if meth=='solve': r=obj.solve(A,rq(200+pi,m,1))
        else:
            r=obj.compute(A)
            if meth=='compute_hon': r=r[:2]
    assert A.tobytes()==A0.tobytes()
    return dig(r)
out={}
for name,(mk,meth,sq) in cfgs.items():
    fresh=[call(mk(),meth,sq,pi) for pi in range(len(pool))]
    div=[]
    for seq in itertools.product(range(len(pool)),repeat=2):
        o=mk(); got=[call(o,meth,sq,pi) for pi in seq]
        for k,(g,pi) in enumerate(zip(got,seq)):
            if g!=fresh[pi]: div.append((seq,k))
    out[name]={'fresh':fresh,'div':div}
    print(name,'divergences',div)
json.dump({k:v['fresh'] for k,v in out.items()},open(f'/tmp/probe/c14_{STYLE}.json','w'))
