"""C13 - sketch-and-project, hybrid and CGNE solvers never flag a wrong inverse converged.

Three nondeterminism sources meet in these solvers: the sketch stream (global RNG), the
clock read in every iteration, and the silent fallbacks.  The simulator owns all three;
the recording RNG wrapper hands the oracle the exact test sketch of each run.
DESIGN section 3, C13.
"""

import json
import math

from .common import rand_clock, BaseHooks, V, finite, is_qmat, cluster_sigma, logspace_sigma, np, qalg, round_sig, sub_rng

PROP = "C13"
WORLDS_QUICK = ("pkg", "flat")
WORLDS_THOROUGH = ("pkg", "flat", "pkg_then_flat", "flat_then_pkg")
KINDS = ("rsp_compute", "rsp_compute", "rsp_colvar", "rsp_rowvar", "hybrid", "hybrid", "cgne", "cgne", "cgne_prec")
CLOCKS = [[0.0], [1e-3, -3600.0, 1e6], [1e6], [-1.0], [5e-4, 0.0, 0.0, 7200.0], [1e-9]]
FOCUS = ["compute_column_variant", "compute_row_variant", "_rsp_step_column", "_solve_spd_quat",
         "qr_qua", "_solve_upper_triangular_quat", "_invert_quat_small", "compute",
         "_ns_hyperpower_right", "_generate_random_sketch", "_build_right_preconditioner"]

RULE = ("one evaluation = one seeded run: a world seeds/advances the shared RNG (possibly by a foreign client "
        "between construction and compute), constructs one solver and calls compute under a clock script and an "
        "optional fault (forced micro-solver fallback, ulp-jitter, or a strided crash-point sweep); distinct = "
        "distinct (kind, shape, cond, tol, block, solver options, budget, fault kind, schedule) signature; "
        "non-trivial = full-rank input with min(m,n) >= 2, or any fault / foreign schedule event")


def gen_trace(seed, world, tier, mode=None):
    R = sub_rng(seed, "C13")
    kind = R.choice(KINDS)
    hi = 6 if tier == "quick" else 8
    m, n = R.randint(1, hi), R.randint(1, hi)
    midsize = R.random() < (0.25 if kind == "hybrid" else 0.04)   # the hybrid's fixed 6-column test sketch is only
    #                                                                narrower than the matrix for n >= 7
    if midsize:
        # mid-size problems with the DEFAULT sketch widths (block 16, test sketch 8): the only
        # place where the defaults are narrower than the matrix
        m, n = R.randint(17, 22), R.randint(9, 20)
    # directed at the CG micro-solver's own success test: strictly tall input of norm 1e-4 / 1e-5
    # (the window in which its absolute breakdown threshold fires for SOME right-hand sides only),
    # SPD column solver, no forced fallback, generous budget
    spd_window = kind in ("rsp_compute", "rsp_colvar", "hybrid") and not midsize and R.random() < 0.12
    if spd_window:
        n = R.randint(2, hi)
        m = n + R.randint(2, 6)
    plateau = kind == "cgne" and not midsize and R.random() < 0.25
    if plateau:
        # directed at CG plateaus: a cluster of singular values plus one small one, large enough
        # (n >= 8) for the plateau to last several iterations, generous budget
        n = R.randint(8, 12)
        m = n + R.randint(0, 3)
    # a few requests in the wrong orientation: the documented answer is a loud rejection
    # (judged by C20); if a solver answers instead, its flag must be sound for that input too
    wrong = R.random() < 0.06 and not plateau and not spd_window
    if kind in ("rsp_colvar", "hybrid", "cgne", "cgne_prec") and (m < n) != wrong:
        m, n = n, m
    if kind == "rsp_rowvar" and (m > n) != wrong:
        m, n = n, m
    wrong = wrong and m != n and kind in ("rsp_colvar", "rsp_rowvar", "hybrid", "cgne", "cgne_prec")
    k = min(m, n)
    cond = 10.0 ** R.choice([0, 1, 1, 2, 3])
    # spectrum: log-uniform, or (20 %) a cluster plus one small value - where CG-type
    # iterations plateau for as many steps as the cluster has members
    spec_fn = cluster_sigma if (R.random() < 0.2 or plateau) else logspace_sigma
    if plateau:
        cond = R.choice([1e3, 1e3, 3e2])
    A = {"gen": "psvd", "m": m, "n": n, "seed": R.randrange(10 ** 6),
         "sigma": [round_sig(v) for v in spec_fn(R, k, cond)]}
    # "for all full-rank inputs": any uniform scale - every decade, because an absolute threshold
    # inside an iteration has a WINDOW of scales in which it misfires (too small: everything
    # breaks down loudly; too large: nothing does)
    sc = R.choice([0, 0, 0, 0, -3, 3, -6, 6, -9, 9, R.randint(-9, 9), R.randint(-9, 9), R.randint(-7, -2)])
    if spd_window:
        sc = R.choice([-4, -4, -5])
    if sc:
        A = {"gen": "scale", "of": A, "c": 10.0 ** sc}
    tol = 10.0 ** -R.choice([3, 4, 5, 6, 7, 8])
    budget = R.choice([5, 50, 50, 400]) if tier == "quick" else R.choice([5, 50, 400, 1000])
    cfg_seed = R.choice([None, None, R.randrange(1000)])
    # swarm: some runs are "quiet" (seeded constructor, compute straight away, test sketch as
    # wide as the projection sketch) - the schedule in which two consumers of the shared
    # stream are most likely to see the same numbers
    quiet = kind.startswith("rsp") and R.random() < 0.3
    if quiet:
        cfg_seed = R.randrange(1000)
    steps = []
    if cfg_seed is None or R.random() < 0.3:
        steps.append({"k": "rng", "op": "seed", "v": R.randrange(10 ** 6)})
    if R.random() < 0.4:
        steps.append({"k": "rng", "op": "draw", "n": R.randint(1, 200)})
    if kind.startswith("rsp"):
        block = R.randint(1, k)
        if kind == "rsp_compute" and R.random() < 0.25:
            block = k + R.randint(1, 10)   # clamp path of compute()
        tss = R.choice([8, 8, 8, 3, 12])
        if midsize:
            # (clamped to the quantified domain 1..min(m,n): a direct compute_*_variant call and
            # the hybrid do not clamp, and a wider sketch is outside the property - DESIGN 6.5)
            block, tss, quiet = (16 if kind == "rsp_compute" else min(16, k)), 8, False
            budget = min(budget, 50)
        if not midsize and (R.random() < 0.2 or quiet):
            if quiet and k >= 2:
                block = R.randint(1, k - 1)
            tss = block          # coincidence knob: test sketch as wide as the projection sketch
        cfg = {"block_size": block, "max_iter": budget, "tol": tol,
               "test_sketch_size": tss, "column_solver": R.choice(["qr", "spd"])}
        cls = "solver.RandomizedSketchProjectPseudoinverse"
        meth = {"rsp_compute": "compute", "rsp_colvar": "compute_column_variant",
                "rsp_rowvar": "compute_row_variant"}[kind]
    elif kind == "hybrid":
        cfg = {"r": R.randint(1, k), "p": R.randint(2, 8), "T": R.randint(1, 5), "tol": tol,
               "max_iter": min(budget, 400), "column_solver": R.choice(["qr", "spd"])}
        if midsize:
            cfg.update(r=min(12, k), p=4, T=5, max_iter=min(budget, 50))      # the defaults, r within 1..min(m,n)
            if R.random() < 0.6:
                # ... or a sketch exactly as wide as the test sketch (6), few sketch steps per cycle
                cfg.update(r=R.choice([6, 6, R.randint(1, k)]), T=R.choice([1, 1, 2, 5]), p=R.randint(2, 8))
        cls, meth = "solver.HybridRSPNewtonSchulz", "compute"
    else:
        cfg = {"tol": tol, "max_iter": R.choice([budget, 500]),
               "preconditioner_rank": 0 if kind == "cgne" else R.randint(1, n)}
        if plateau:
            cfg["max_iter"] = 500
        if kind == "cgne" and not wrong and not midsize and not plateau and cond <= 10 and R.random() < 0.4:
            # the tightest budget that provably suffices: CG terminates after as many steps as
            # there are distinct singular values (1 for an isometry; n + 2 leaves rounding room,
            # 0 failures in 6000 trials on the unchanged tree)
            cfg["max_iter"] = 1 if cond == 1 else n + 2
        cls, meth = "solver.CGNEQSolver", "compute"
    if cfg_seed is not None:
        cfg["seed"] = cfg_seed
    if R.random() < 0.12:
        cfg["verbose"] = True
    call = {"k": "call", "obj": "s0", "meth": meth, "args": [A],
            "tags": {"kind": kind, "m": m, "n": n, "cond": cond, "wrong_orientation": wrong, "scale": sc}}
    x = R.random() if mode is None else {"plain": 0.1, "clock": 0.55, "spd": 0.65, "jitter": 0.75, "sweep": 0.9}[mode]
    if spd_window:
        x = 0.1
        cfg["column_solver"] = "spd"
        cfg["max_iter"] = max(cfg["max_iter"], 400)
    if kind == "hybrid" and mode is None and 0.25 <= x < 0.45:
        x = 0.5     # the hybrid alternates two kinds of steps with bookkeeping in between: more clock scripts
    if midsize and x >= 0.82:
        x = 0.1     # no crash-point sweeps over mid-size solves: 48 re-executions under line monitoring
                    # exceeded the 300 s wall limit of a run on a loaded machine (harness error, exit 2)
    if x < 0.45:
        pass
    elif x < 0.62:
        call["clock"] = rand_clock(R)
        if kind == "hybrid" and R.random() < 0.5:
            # a suspend / clock step in the middle of a LATER sweep of sketch steps (after the first
            # hyperpower step has put an entry into the history): the shape of a deadline that
            # expires mid-cycle; enough budget and a tight tolerance so that there are later sweeps
            T_ = cfg["T"]
            call["clock"] = [1e-3] * R.randint(T_ + 1, 4 * T_ + 2) + [R.choice([7200.0, 1e5, 4000.0, 1e9])] + [1e-3] * 400
            cfg["max_iter"] = max(cfg["max_iter"], 50)
            cfg["tol"] = min(cfg["tol"], 1e-7)
    elif x < 0.72:
        call["fault"] = {"spd_fallback": True}
        if kind.startswith("rsp") or kind == "hybrid":
            cfg["column_solver"] = "spd"
    elif x < 0.75:
        # the k-th LAPACK-backed factorisation inside the call fails (LinAlgError): the documented
        # reaction of the sketch steps is to skip the step; whatever happens, the flag must stay sound
        call["fault"] = {"linalg_fail": {"fn": R.choice(["qr", "qr", "qr", "svd", "inv"]), "k": R.choice([1, 1, 2, 3, 5])}}
        if kind.startswith("rsp") or kind == "hybrid":
            cfg["column_solver"] = "qr"      # the path that factorises
    elif x < 0.82:
        call["fault"] = {"jitter": R.randrange(2 ** 31)}
    else:
        cfg["max_iter"] = min(cfg["max_iter"], 50)
        steps.append({"k": "sweep", "cls": cls, "cfg": cfg, "call": call,
                      "picks": 24 if tier == "quick" else 48, "focus": FOCUS,
                      "pick_seed": R.randrange(10 ** 6)})
        return {"prop": PROP, "seed": seed, "world": world, "mode": "sweep", "steps": steps}
    steps.append({"k": "new", "obj": "s0", "cls": cls, "cfg": cfg})
    if not quiet and R.random() < 0.3:   # a foreign client between construction and compute
        steps.append({"k": "rng", "op": R.choice(["draw", "seed"]), "n": R.randint(1, 100),
                      "v": R.randrange(10 ** 6), "client": 1})
    if not quiet and not midsize and not wrong and R.random() < 0.2:
        # the solver object is not fresh: an easy problem (an isometry, slightly larger or of the
        # same shape) was answered by it first - whatever that call left on the object (a flag,
        # an iteration count, a cached sketch) must not leak into the judged call
        if R.random() < 0.5:
            dw = R.choice([0, 0, 1, 2])
            mw, nw = m + dw, n + dw
            Aw = {"gen": "psvd", "m": mw, "n": nw, "seed": R.randrange(10 ** 6), "sigma": [1.0] * min(mw, nw)}
            cw, scw = 1.0, 0
        else:
            # ... or a NEARBY problem (a sequence of slowly changing matrices is what a reused
            # solver typically sees): its answer is a tempting but wrong starting point, because
            # its rows lie in the row space of the other matrix
            mw, nw, cw, scw = m, n, cond, sc
            c = 0.1 * (10.0 ** sc / cond) / (2.0 * (math.sqrt(m) + math.sqrt(n)))
            Aw = {"gen": "add", "a": A, "b": {"gen": "scale", "c": round_sig(c, 3),
                                              "of": {"gen": "gauss", "m": m, "n": n, "seed": R.randrange(10 ** 6)}}}
        warm = {"k": "call", "obj": "s0", "meth": meth, "args": [Aw],
                "tags": {"kind": kind, "m": mw, "n": nw, "cond": cw, "wrong_orientation": False, "scale": scw,
                         "warmup": True}}
        if R.random() < 0.5:
            # ... through ONE client array refilled in place (same shape only; otherwise the
            # executor hands over a new array), so that identity-keyed memos go stale
            warm["args"] = [dict(Aw, buf="A")]
            call["args"] = [dict(A, buf="A")]
        steps.append(warm)
    steps.append(call)
    return {"prop": PROP, "seed": seed, "world": world, "mode": "run", "steps": steps}


def gen_jobs(base_seed, tier, budget=None):
    worlds = WORLDS_QUICK if tier == "quick" else WORLDS_THOROUGH
    n = budget if budget is not None else (640 if tier == "quick" else 24000)
    jobs = []
    for i in range(n):
        seed = base_seed * 10 ** 6 + i
        jobs.append({"seed": seed, "trace": gen_trace(seed, worlds[i % len(worlds)], tier)})
    return jobs, worlds


# ------------------------------------------------------------------ oracles

def _chi2_lower(df, p):
    from scipy.stats import chi2
    return float(chi2.ppf(p, df))


class Hooks(BaseHooks):
    def __init__(self, trace):
        super().__init__(trace)
        self.cnt = {"calls": 0, "converged": 0, "not_converged": 0, "raised_under_fault": 0,
                    "returned_under_fault": 0, "deterministic_K": 0, "probabilistic_K": 0,
                    "empty_history": 0}
        self.meta = {}

    def _meta(self, spec):
        k = json.dumps(spec, sort_keys=True)
        if k not in self.meta:
            A = self.dense(spec)
            sv = qalg.svdvals(A)
            self.meta[k] = {"A": A, "sv": sv, "cond": float(sv[0] / sv[-1]) if sv[-1] > 0 else float("inf"),
                            "pinv": qalg.pinv(A)}
        return self.meta[k]

    def after_step(self, ex, i, step, rec, viol):
        if step["k"] != "call":
            return
        tags = step.get("tags", {})
        kind = tags.get("kind")
        cfg = ex.objcfg[step["obj"]][1]
        tol = cfg["tol"]
        mt = self._meta(step["args"][0])
        A = mt["A"]
        m, n = A.shape
        fault = step.get("fault") or {}
        hard = bool((fault.get("line") or fault.get("linalg_fail")) and rec.get("fault_fired"))
        self.cnt["calls"] += 1
        if rec["ok"] == "exc":
            if hard:
                self.cnt["raised_under_fault"] += 1
                return
            if tags.get("wrong_orientation"):
                self.cnt["wrong_orientation_rejected"] = self.cnt.get("wrong_orientation_rejected", 0) + 1
                return
            viol.append(V("raised", i, f"{kind} raised {rec.get('exc')}: {rec.get('exc_msg')} on a full-rank "
                                       f"{m}x{n} input (cond {mt['cond']:.3g})"))
            return
        if hard:
            self.cnt["returned_under_fault"] += 1
        val = ex.values[i]
        if not (isinstance(val, tuple) and len(val) == 2 and isinstance(val[1], dict)):
            viol.append(V("shape", i, f"returned {type(val).__name__}, expected (X, info)"))
            return
        X, info = val
        if not is_qmat(X, (n, m)):
            viol.append(V("shape", i, f"X has shape {getattr(X, 'shape', None)}, expected {(n, m)}"))
            return
        col = (m >= n) if (kind == "rsp_compute" or tags.get("wrong_orientation")) else (kind != "rsp_rowvar")
        d = n if col else m
        conv = bool(info.get("converged"))
        rn = info.get("residual_norms")
        if not isinstance(rn, list):
            viol.append(V("history", i, "info.residual_norms is not a list"))
            return
        rn = [float(v) for v in rn]
        self.cnt["converged" if conv else "not_converged"] += 1
        if not rn:
            self.cnt["empty_history"] += 1
        if not finite(qalg.comps(X)) or not all(math.isfinite(v) for v in rn):
            if conv:
                viol.append(V("sound_flag", i, "converged=True with non-finite X or residual history"))
            elif not fault:
                viol.append(V("nan", i, f"non-finite X / history on a full-rank input with cond {mt['cond']:.3g}"))
            return
        E = (qalg.eye(n) - qalg.mm(X, A)) if col else (qalg.eye(m) - qalg.mm(A, X))
        true = qalg.fro(E) / math.sqrt(d)
        nXA = qalg.norm2(X) * float(mt["sv"][0])
        # --- oracle 1: the reported history is the history of the returned iterate
        draws = ex.draws.get(i) or []
        K = None
        if kind in ("cgne", "cgne_prec"):
            if rn and abs(rn[-1] - true) > 1e-9 * (1.0 + nXA) * max(1.0, mt["cond"] * 1e-2):
                viol.append(V("truth", i, f"last residual {rn[-1]:.6e} but ||I - XA||_F/sqrt(n) = {true:.6e}"))
            K = 1.0
            if isinstance(info.get("iterations"), (int, np.integer)) and info["iterations"] != len(rn):
                viol.append(V("truth", i, f"iterations = {info['iterations']} but {len(rn)} residuals"))
        else:
            s = cfg.get("test_sketch_size", 8) if kind.startswith("rsp") else min(6, n)
            if tags.get("wrong_orientation"):
                # answered although out of domain: no documented proxy; demand the plain statement
                K = None    # the sketch-derived constant does not apply; only the plain statement is demanded
                if conv and true > 100.0 * tol + 1e-13 * mt["cond"]:
                    viol.append(V("sound_flag", i,
                                  f"{kind} answered a {m}x{n} input in the wrong orientation with converged=True but "
                                  f"||{'XA' if col else 'AX'} - I||_F/sqrt({d}) = {true:.3e} (tol {tol:g})"))
            else:
                # the test sketch is a group of four consecutive draws of shape (d, s); the
                # code draws it first, but nothing in the property fixes WHEN it is drawn, so
                # every such group is a candidate and the one that reproduces the reported
                # residual is taken (a refactoring that draws it later must not raise an alarm)
                cands = [g for g in range(0, len(draws) - 3, 4)
                         if all(dr.shape == (d, s) for dr in draws[g:g + 4])]
                Pi = None
                best = None
                for g in cands[:12]:
                    P_ = qalg.from_comps(np.stack(draws[g:g + 4], axis=-1))
                    pr_ = qalg.fro(qalg.mm(E, P_)) / qalg.fro(P_)
                    dist = abs(pr_ - rn[-1]) if rn else 0.0
                    if best is None or dist < best[0]:
                        best = (dist, P_, pr_)
                    if not rn or dist <= 1e-10 * (1.0 + nXA):
                        break
                if best is not None:
                    _dist, Pi, proxy = best
            if tags.get("wrong_orientation"):
                pass
            elif Pi is not None:
                nPi = qalg.fro(Pi)
                if rn and abs(proxy - rn[-1]) > 1e-10 * (1.0 + nXA):
                    viol.append(V("truth", i,
                                  f"last residual {rn[-1]:.6e} is not the proxy residual of the returned X "
                                  f"({proxy:.6e}) for any recorded draw that can be the test sketch"))
                svp = qalg.svdvals(Pi)
                if s >= d and svp[-1] > 0:
                    K = nPi / (math.sqrt(d) * float(svp[-1]))
                    self.cnt["deterministic_K"] += 1
                else:
                    q = _chi2_lower(4 * s, 1e-15)
                    K = nPi / math.sqrt(d * q)
                    self.cnt["probabilistic_K"] += 1
            elif rn:
                # the test sketch did not come through np.random.randn (e.g. a private generator
                # seeded from the global stream would still satisfy the property): nothing to
                # recompute the proxy from, so only the flag is judged, with the constant of a
                # Gaussian sketch of the configured width whose norm is at its 1-1e-15 quantile
                from scipy.stats import chi2
                self.cnt["sketch_unidentified"] = self.cnt.get("sketch_unidentified", 0) + 1
                K = math.sqrt(float(chi2.ppf(1 - 1e-15, 4 * d * s)) / (d * _chi2_lower(4 * s, 1e-15)))
            key = "iterations" if kind.startswith("rsp") else None
            if key and isinstance(info.get(key), (int, np.integer)) and info[key] != len(rn):
                viol.append(V("truth", i, f"iterations = {info[key]} but {len(rn)} residuals"))
        want = bool(rn) and rn[-1] <= tol
        if conv != want:
            viol.append(V("truth", i, f"converged = {conv} but last residual {rn[-1] if rn else None} vs tol {tol:g}"))
        # --- oracle 2/3: sound flag
        if conv and K is not None:
            bound = K * tol * (1 + 1e-6) + 1e-13 * mt["cond"]
            if true > bound:
                viol.append(V("sound_flag", i,
                              f"converged=True but ||{'XA' if col else 'AX'} - I||_F/sqrt({d}) = {true:.3e} > "
                              f"K*tol = {bound:.3e} (K = {K:.3g}, tol {tol:g}, {kind}, {m}x{n}, cond {mt['cond']:.3g})"))
            dist = qalg.fro(X - mt["pinv"])
            pn = 1.0 / float(mt["sv"][-1])
            dbound = 2.0 * K * tol * math.sqrt(d) * pn + 1e-11 * mt["cond"] * pn
            if dist > dbound:
                viol.append(V("pinv_distance", i,
                              f"converged=True but ||X - A^+||_F = {dist:.3e} > {dbound:.3e} "
                              f"(K = {K:.3g}, tol {tol:g}, cond {mt['cond']:.3g})"))
        # --- oracle 4: deterministic CGNE: monotone residuals, bounded liveness
        if kind == "cgne":
            for a, c in zip(rn, rn[1:]):
                if c > a * (1 + 1e-9) + 1e-14 * mt["cond"]:
                    viol.append(V("cgne_monotone", i, f"CGNE residual increases: {a:.6e} -> {c:.6e}"))
                    break
            # (finite termination after n steps is an exact-arithmetic property; in floating point
            # it was validated for n <= 8 only and does NOT hold for mid-size inputs - DESIGN 6.3)
            tight_ok = (mt["cond"] <= 1.0 + 1e-9 and cfg["max_iter"] >= 1) or \
                       (mt["cond"] <= 10.0 * (1 + 1e-9) and cfg["max_iter"] >= n + 2 and n <= 8)
            if not fault.get("line") and not fault.get("linalg_fail") and not tags.get("wrong_orientation") \
                    and ((cfg["max_iter"] >= 400 and mt["cond"] <= 1e3) or tight_ok):
                if true > tol * (1 + 1e-6) + 1e-12 * mt["cond"] ** 2:
                    viol.append(V("cgne_liveness", i,
                                  f"CGNE with budget {cfg['max_iter']}: ||XA - I||_F/sqrt(n) = {true:.3e} > tol {tol:g} "
                                  f"after {len(rn)} iterations ({m}x{n}, cond {mt['cond']:.3g})"))

    def stats(self, ex):
        out = dict(self.cnt)
        nsub = nfired = 0
        for r in ex.recs:
            if r["k"] == "sweep":
                nsub += r["n_sub"]
                nfired += r["n_fired"]
        out["sweep_sub"] = nsub
        out["sweep_fired"] = nfired
        return out


def finding_tags(trace, v):
    steps = v.get("explicit") or trace["steps"]
    st = steps[-1] if v.get("explicit") else (steps[v["step"]] if 0 <= v.get("step", -1) < len(steps) else {})
    if st.get("k") == "sweep":
        st = st["call"]
    tags = dict(st.get("tags") or {})
    tags["oracle"] = v["oracle"]
    tags["fault"] = "+".join(sorted((st.get("fault") or {}).keys())) or "none"
    return tags


def violation_target(trace, v):
    return finding_tags(trace, v).get("kind", "")


def _call_of(trace):
    for s in reversed(trace["steps"]):     # the judged call is the last one (a warm-up may precede it)
        if s["k"] == "call":
            return s, None
        if s["k"] == "sweep":
            return s["call"], s
    return None, None


def signature(trace, result):
    call, sw = _call_of(trace)
    cfg = sw["cfg"] if sw else next((s["cfg"] for s in trace["steps"] if s["k"] == "new"), {})
    t = call.get("tags", {})
    ev = tuple((s["k"], s.get("op")) for s in trace["steps"] if s["k"] in ("rng", "clock"))
    return repr((t.get("kind"), t.get("m"), t.get("n"), t.get("cond"), t.get("scale"), sorted(cfg.items(), key=str),
                 "+".join(sorted(call.get("fault") or {})), bool(call.get("clock")), bool(sw), ev,
                 sum(1 for s in trace["steps"] if s["k"] == "call")))


def nontrivial(trace, result):
    call, sw = _call_of(trace)
    t = call.get("tags", {})
    return min(t.get("m", 1), t.get("n", 1)) >= 2 or bool(call.get("fault")) or bool(sw) \
        or bool(call.get("clock"))


def simplify(trace):
    out = []
    for si, s in enumerate(trace["steps"]):
        if s["k"] == "new":
            for fld, val in (("max_iter", 5), ("max_iter", 50), ("tol", 1e-3), ("seed", None),
                             ("column_solver", "qr"), ("test_sketch_size", 8)):
                if fld in s["cfg"] and s["cfg"][fld] != val:
                    t = json.loads(json.dumps(trace))
                    if val is None:
                        t["steps"][si]["cfg"].pop(fld)
                    else:
                        t["steps"][si]["cfg"][fld] = val
                    out.append(t)
        if s["k"] == "call" and (s.get("fault") or {}).get("line"):
            k = s["fault"]["line"]
            for kk in sorted({1, k // 2, k - 1}):
                if 1 <= kk < k:
                    t = json.loads(json.dumps(trace))
                    t["steps"][si]["fault"]["line"] = kk
                    out.append(t)
    return out
