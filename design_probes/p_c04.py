import os
os.environ.setdefault("OMP_NUM_THREADS","1")
import numpy as np, quaternion, io, contextlib
from quatica.solver import QGMRESSolver
from quatica.utils import quat_matmat, quat_frobenius_norm
def rq(rng,m,n): return quaternion.as_quat_array(rng.standard_normal((m,n,4)))
bad=0; tot=0
for seed in range(200):
    rng=np.random.default_rng(seed)
    n=int(rng.integers(1,8))
    A=rq(rng,n,n); b=rq(rng,n,1)
    for prec in (None,'left_lu'):
        s=QGMRESSolver(tol=1e-8,preconditioner=prec)
        with contextlib.redirect_stdout(io.StringIO()):
            x,info=s.solve(A.copy(),b.copy())
        r=quat_frobenius_norm(quat_matmat(A,x)-b)/quat_frobenius_norm(b)
        tot+=1
        if info['converged'] and r>1e-6:
            bad+=1
            if bad<8: print(seed,n,prec,'converged but r=',r,'iters',info['iterations'],'res',info['residual'])
        if not info['converged']:
            print(seed,n,prec,'not converged r=',r, info['iterations'])
print(bad,tot)
