"""C14 - results depend only on configuration and arguments (no hidden state, no
argument mutation, reproducible from the global seed, import-style independent).

Simulated system: 1-3 clients issuing calls against *shared* solver objects, the shared
global RNG and the shared clock, in four import worlds, with world events (foreign
draws, re-seeds, construction of other seeded solvers, clock jumps) and crashes inside
calls.  Reference model: the same call on a fresh object in a freshly forked pristine
world (engine._reference).  DESIGN section 3, C14.
"""

import itertools
import json
import os

from .common import BaseHooks, V, rand_clock, ref_request, sub_rng

PROP = "C14"
WORLDS_QUICK = ("pkg", "flat")
WORLDS_THOROUGH = ("pkg", "flat", "pkg_then_flat", "flat_then_pkg")

RULE = ("one evaluation = one simulated history (<= 3 calls per shared object in the exhaustive "
        "part, <= 14 steps with world events and faults in the random part) executed in a forked "
        "world and compared call by call with one-shot pristine evaluations; distinct = distinct "
        "(configuration, per-object call history, world events, fault kinds) signature; non-trivial "
        "= contains a second call on the same shared object, or a world event between construction "
        "and call, or a fired fault followed by a call, or a repeat step")


def G(m, n, seed):
    return {"gen": "gauss", "m": m, "n": n, "seed": seed}


def SQ(n, seed, sigma=None):
    return {"gen": "psvd", "m": n, "n": n, "seed": seed,
            "sigma": sigma or [round(1.0 / (1 + 0.7 * i), 6) for i in range(n)]}


def PS(m, n, sigma, seed):
    return {"gen": "psvd", "m": m, "n": n, "seed": seed, "sigma": sigma}


def HERM(n, seed, lam=None):
    return {"gen": "herm", "n": n, "seed": seed, "lam": lam or [round(2.0 - 0.6 * i, 6) for i in range(n)]}


def SP(spec):
    return dict(spec, storage="sparse")


# --- solver configurations and their problem pools (sizes 1, 2-3, 5-6, one sparse /
# rank-deficient / wrong-orientation problem), DESIGN C14 "Exhaustive part" -----------

GM_POOL = [[SQ(1, 11), G(1, 1, 12)], [SQ(3, 13), G(3, 1, 14)], [SQ(6, 15), G(6, 1, 16)],
           [SP(SQ(4, 17)), G(4, 1, 18)]]
PINV_POOL = [[G(1, 1, 21)], [PS(3, 2, [1.0, 0.5], 22)], [PS(6, 4, [1.0, 0.8, 0.5, 0.3], 23)],
             [PS(2, 5, [1.0, 0.6], 24)]]
TALL_POOL = [[G(1, 1, 31)], [PS(3, 2, [1.0, 0.5], 32)], [PS(6, 4, [1.0, 0.8, 0.5, 0.3], 33)],
             [PS(4, 3, [1.0, 0.5, 0.0], 34)]]
NS_POOL = [[G(1, 1, 41)], [PS(3, 2, [1.0, 0.5], 42)], [PS(5, 6, [1.0, 0.8, 0.6, 0.5, 0.4], 43)],
           [PS(4, 3, [1.0, 0.5, 0.0], 44)]]
NS_SPARSE_POOL = NS_POOL[:3] + [[SP(PS(3, 4, [1.0, 0.7, 0.4], 45))]]
DL_POOL = [[G(1, 1, 51), [1, 1]], [PS(3, 2, [1.0, 0.5], 52), [2, 3]],
           [PS(5, 3, [1.0, 0.7, 0.4], 53), [3, 2, 5]], [PS(4, 2, [1.0, 0.5], 54), [2, 4]]]

CONFIGS = [
    ("gmres", "solver.QGMRESSolver", {"tol": 1e-8}, "solve", GM_POOL),
    ("gmres_cap2", "solver.QGMRESSolver", {"tol": 1e-8, "max_iter": 2}, "solve", GM_POOL),
    ("gmres_lu", "solver.QGMRESSolver", {"tol": 1e-8, "preconditioner": "left_lu"}, "solve", GM_POOL),
    ("gmres_lu_cap0", "solver.QGMRESSolver", {"tol": 1e-8, "max_iter": 0, "preconditioner": "left_lu"}, "solve", GM_POOL),
    ("rsp_qr", "solver.RandomizedSketchProjectPseudoinverse",
     {"block_size": 2, "max_iter": 25, "tol": 1e-6, "column_solver": "qr"}, "compute", PINV_POOL),
    ("rsp_spd", "solver.RandomizedSketchProjectPseudoinverse",
     {"block_size": 3, "max_iter": 20, "tol": 1e-6, "column_solver": "spd", "seed": 7}, "compute", PINV_POOL),
    ("rsp_big_block", "solver.RandomizedSketchProjectPseudoinverse",
     {"block_size": 16, "max_iter": 12, "tol": 1e-8, "test_sketch_size": 3}, "compute", PINV_POOL),
    ("hybrid", "solver.HybridRSPNewtonSchulz",
     {"r": 2, "p": 3, "T": 2, "tol": 1e-8, "max_iter": 12}, "compute", TALL_POOL),
    ("cgne", "solver.CGNEQSolver", {"tol": 1e-9, "max_iter": 40}, "compute", TALL_POOL),
    ("cgne_prec", "solver.CGNEQSolver", {"tol": 1e-9, "max_iter": 30, "preconditioner_rank": 1, "seed": 3},
     "compute", TALL_POOL),
    ("ns", "solver.NewtonSchulzPseudoinverse", {"gamma": 0.8, "max_iter": 15, "tol": 1e-8}, "compute", NS_SPARSE_POOL),
    ("ns_cov", "solver.NewtonSchulzPseudoinverse", {"gamma": 1.0, "max_iter": 12, "compute_residuals": False},
     "compute", NS_POOL),
    ("hon", "solver.HigherOrderNewtonSchulzPseudoinverse", {"max_iter": 8, "tol": 1e-10}, "compute", NS_POOL),
    ("hon_tol0", "solver.HigherOrderNewtonSchulzPseudoinverse", {"max_iter": 6, "tol": 0.0}, "compute", NS_POOL),
    ("gmres_falsy", "solver.QGMRESSolver", {"tol": 1e-8, "max_iter": 0, "preconditioner": None, "verbose": False}, "solve", GM_POOL),
    ("gmres_verbose", "solver.QGMRESSolver", {"tol": 1e-8, "verbose": True, "preconditioner": "left_lu"}, "solve", GM_POOL),
    ("rsp_verbose", "solver.RandomizedSketchProjectPseudoinverse",
     {"block_size": 2, "max_iter": 12, "tol": 1e-6, "verbose": True, "column_solver": "spd"}, "compute", PINV_POOL),
    ("cgne_verbose", "solver.CGNEQSolver", {"tol": 1e-9, "max_iter": 20, "verbose": True}, "compute", TALL_POOL),
    ("deep", "solver.DeepLinearNewtonSchulz", {"max_iter": 2, "tol": 1e-6}, "compute", DL_POOL),
    ("deep_rand", "solver.DeepLinearNewtonSchulz", {"max_iter": 1, "random_init": True, "inner_iterations": 2},
     "compute", DL_POOL),
]
CONFIG_BY_NAME = {c[0]: c for c in CONFIGS}


# --- public function catalogue ("fn" steps) -------------------------------------------

def _dims(R, lo=1, hi=5):
    return R.randint(lo, hi), R.randint(lo, hi)


def _anymat(R, m=None, n=None):
    if m is None:
        m, n = _dims(R)
    s = R.randrange(10 ** 6)
    kind = R.choice(["gauss", "gauss", "int", "lowrank", "zeros"]) if min(m, n) > 1 else R.choice(["gauss", "int"])
    if kind == "gauss":
        return G(m, n, s)
    if kind == "int":
        return {"gen": "int", "m": m, "n": n, "seed": s}
    if kind == "zeros":
        return {"gen": "zeros", "m": m, "n": n}
    k = min(m, n)
    r = R.randint(1, k - 1)
    return PS(m, n, [round(2.0 / (1 + i), 6) for i in range(r)] + [0.0] * (k - r), s)


def _sq(R, lo=1, hi=5):
    n = R.randint(lo, hi)
    return _anymat(R, n, n)


def _herm(R, lo=1, hi=5):
    n = R.randint(lo, hi)
    lam = [round(R.choice([-1, 1]) * R.uniform(0.2, 3.0), 4) for _ in range(n)]
    return HERM(n, R.randrange(10 ** 6), lam)


def _herm_struct(R, lo=2, hi=5):
    """Hermitian input that is already (almost) reduced: tridiagonal or diagonal plus Hermitian
    noise at or far below rounding level (1e-13 ... 1e-22), i.e. the residue of an earlier
    transform - entries a clean-up step may be tempted to flush in the caller's array."""
    n = R.randint(lo, hi)
    base = {"gen": "tridiag_herm", "n": n, "seed": R.randrange(10 ** 6)} if R.random() < 0.7 else \
        {"gen": "herm", "n": n, "seed": R.randrange(10 ** 6), "lam": [round(R.uniform(-2, 2), 3) for _ in range(n)]}
    return {"gen": "add", "a": base, "b": {"gen": "scale", "c": R.choice([1e-13, 1e-16, 1e-19, 1e-22]),
                                           "of": HERM(n, R.randrange(10 ** 6))}}


def _schur_arg(R):
    """Square input for the Schur family: generic, or already (exactly) upper Hessenberg /
    triangular / Hermitian tridiagonal - the inputs for which a reduction step can be skipped."""
    n = R.randint(1, 4)
    x = R.random()
    s = R.randrange(10 ** 6)
    if x < 0.55 or n == 1:
        return G(n, n, s)
    if x < 0.75:
        return {"gen": "hess", "n": n, "seed": s}
    if x < 0.9:
        return {"gen": "tri", "n": n, "seed": s, "upper": True}
    return {"gen": "tridiag_herm", "n": n, "seed": s}


def _real(R, m, n):
    return {"gen": "real", "m": m, "n": n, "seed": R.randrange(10 ** 6)}


def _comp4(R, m, n):
    return [_real(R, m, n) for _ in range(4)]


def _catalogue():
    C = []

    def F(name, gen, weight=1):
        C.append((name, gen, weight))

    def mm(R):
        m, k = _dims(R)
        n = R.randint(1, 5)
        A = _anymat(R, m, k)
        B = _anymat(R, k, n)
        mode = R.choice(["dd", "dd", "sd", "ds", "ss"])
        if mode[0] == "s":
            A = SP(A)
        if mode[1] == "s":
            B = SP(B)
        return [A, B], {}
    F("utils.quat_matmat", mm, 2)
    F("utils.quat_frobenius_norm", lambda R: ([R.choice([_anymat(R), SP(_anymat(R))])], {}))
    F("utils.quat_hermitian", lambda R: ([R.choice([_anymat(R), SP(_anymat(R))])], {}))
    F("utils.quat_eye", lambda R: ([R.randint(1, 5)], {}))

    def sqm_ctor(R):
        # the public constructor itself, on the caller's four CSR components (integer-valued data so
        # that the components contain genuine zeros; half of the time stored explicitly)
        m, n = _dims(R, 1, 4)
        ez = R.random() < 0.5
        comps = [{"gen": "csr", "explicit_zeros": ez,
                  "of": {"gen": "realint", "m": m, "n": n, "seed": R.randrange(10 ** 6)}} for _ in range(4)]
        return comps + [{"gen": "tuple", "items": [m, n]}], {}
    F("utils.SparseQuaternionMatrix", sqm_ctor, 2)
    F("utils.induced_matrix_norm_1", lambda R: ([_anymat(R)], {}))
    F("utils.induced_matrix_norm_inf", lambda R: ([_anymat(R)], {}))
    F("utils.spectral_norm_2", lambda R: ([_anymat(R)], {}))
    F("utils.matrix_norm", lambda R: ([_anymat(R), R.choice([None, "fro", "F", 1, 2, "inf"])], {}), 2)
    F("utils.real_expand", lambda R: ([_anymat(R)], {}))

    def rc(R):
        m, n = _dims(R, 1, 3)
        return [_real(R, 4 * m, 4 * n), m, n], {}
    F("utils.real_contract", rc)
    F("utils.compute_real_svd_pinv", lambda R: ([_real(R, *_dims(R))], {}))
    F("utils.normQ", lambda R: ([_anymat(R), R.choice([None, "d"])], {}))
    F("utils.ishermitian", lambda R: ([R.choice([_herm(R), _sq(R)])], {}))
    F("utils.det", lambda R: ([_sq(R, 1, 4), R.choice(["Dieudonne", "Dieudonné"])], {}))
    F("utils.det", lambda R: ([R.choice([_herm(R, 1, 4), _herm_struct(R, 2, 4)]), "Moore"], {}))
    F("utils.rank", lambda R: ([_anymat(R)], {}), 2)
    def _pi_arg(R):
        x = R.random()
        if x < 0.35:
            return _herm(R)
        if x < 0.6:
            return _sq(R)
        n = R.randint(1, 5)
        if x < 0.8:
            return SP(_herm(R))
        # integer-valued Hermitian matrix (stores genuine zeros when kept with explicit zeros)
        return SP({"gen": "hermpart", "of": {"gen": "int", "m": n, "n": n, "seed": R.randrange(10 ** 6)}})
    F("utils.power_iteration", lambda R: ([_pi_arg(R)],
                                          {"max_iterations": R.choice([1, 5, 40]), "return_eigenvalue": R.random() < 0.5}), 2)
    F("utils.quaternion_to_complex_adjoint", lambda R: ([_sq(R)], {}))
    F("utils.power_iteration_nonhermitian",
      lambda R: ([R.choice([_herm(R, 1, 4), _sq(R, 1, 4)])],
                 {"max_iterations": R.choice([5, 60]), "seed": R.randrange(5),
                  "eigenvalue_format": R.choice(["complex", "quaternion"]),
                  "return_vector": R.random() < 0.7}), 2)
    F("utils.quat_null_space", lambda R: ([_anymat(R)], {"side": R.choice(["right", "left"])}), 2)
    F("utils.quat_null_right", lambda R: ([_anymat(R)], {}))
    F("utils.quat_null_left", lambda R: ([_anymat(R)], {}))
    F("utils.quat_kernel", lambda R: ([_anymat(R)], {"side": R.choice(["right", "left"])}))

    def nqs(R):
        m, n = _dims(R, 1, 4)
        return _comp4(R, m, n) + [R.choice([None, "d", "2", "1"])], {}
    F("utils.normQsparse", nqs)

    def tqs(R):
        m, k = _dims(R, 1, 4)
        n = R.randint(1, 4)
        return _comp4(R, m, k) + _comp4(R, k, n), {}
    F("utils.timesQsparse", tqs)
    F("utils.A2A0123", lambda R: ([_real(R, R.randint(1, 4), 4 * R.randint(1, 3))], {}))
    F("utils.Realp", lambda R: (_comp4(R, *_dims(R, 1, 3)), {}))

    def gg(R):
        return [{"gen": "realnd", "shape": [4], "seed": R.randrange(10 ** 6)},
                {"gen": "realnd", "shape": [4], "seed": R.randrange(10 ** 6)}], {}
    F("utils.ggivens", gg)
    F("utils.GRSGivens", lambda R: ([{"gen": "realnd", "shape": [4], "seed": R.randrange(10 ** 6)}], {}))
    F("utils.absQsparse", lambda R: (_comp4(R, *_dims(R, 1, 3)), {}))
    F("utils.dotinvQsparse", lambda R: (_comp4(R, *_dims(R, 1, 3)), {}))

    def hq(R):
        m = R.randint(1, 4)
        return [_real(R, 4 * (m + 1), m)], {}
    F("utils.Hess_QR_ggivens", hq)

    def ut(R):
        n = R.randint(1, 4)
        tri = {"gen": "tri", "n": n, "seed": R.randrange(10 ** 6), "upper": True}
        # component form of an upper triangular quaternion matrix is not expressible as one
        # spec per component; use real upper-triangular-free inputs: the kernel accepts any
        # square R and reads only its upper triangle.
        del tri
        return _comp4(R, n, n) + _comp4(R, n, R.randint(1, 2)), {}
    F("utils.UtriangleQsparse", ut)
    # decompositions
    F("decomp.qsvd.qr_qua", lambda R: ([_anymat(R)], {}), 2)
    F("decomp.qsvd.classical_qsvd_full", lambda R: ([_anymat(R)], {}), 2)

    def cq(R):
        A = _anymat(R)
        from ..gens import shape_of
        k = min(shape_of(A))
        return [A, R.randint(1, k)], {}
    F("decomp.qsvd.classical_qsvd", cq)

    def rq(R):
        m, n = _dims(R, 1, 6)
        A = G(m, n, R.randrange(10 ** 6))
        return [A, R.randint(1, min(m, n))], {"oversample": R.randint(0, 4), "n_iter": R.randint(0, 2)}
    F("decomp.qsvd.rand_qsvd", rq, 2)

    def pq(R):
        m, n = _dims(R, 1, 6)
        A = G(m, n, R.randrange(10 ** 6))
        return [A, R.randint(1, min(m, n))], {"oversample": R.randint(0, 4), "n_passes": R.randint(2, 4)}
    F("decomp.qsvd.pass_eff_qsvd", pq, 2)
    F("decomp.quaternion_lu", lambda R: ([G(*_dims(R), R.randrange(10 ** 6))], {"return_p": R.random() < 0.5}), 2)
    F("decomp.quaternion_modulus", lambda R: ([_anymat(R)], {}))
    F("decomp.quaternion_triu", lambda R: ([_anymat(R)], {"k": R.randint(-1, 1)}))
    F("decomp.quaternion_tril", lambda R: ([_anymat(R)], {"k": R.randint(-1, 1)}))
    F("decomp.quaternion_eigendecomposition", lambda R: ([R.choice([_herm(R), _herm(R), _herm_struct(R)])], {}), 2)
    F("decomp.quaternion_eigenvalues", lambda R: ([R.choice([_herm(R), _herm(R), _herm_struct(R)])], {}))
    F("decomp.quaternion_eigenvectors", lambda R: ([R.choice([_herm(R), _herm(R), _herm_struct(R)])], {}))
    F("decomp.tridiagonalize", lambda R: ([R.choice([_herm(R, 2, 5), _herm_struct(R)])], {}), 2)
    F("decomp.hessenberg.hessenbergize", lambda R: ([R.choice([_sq(R), _sq(R), _schur_arg(R)])], {}), 2)
    def near(R, base):
        # structured matrix plus noise at rounding level: the input the clean-up helpers exist for
        n = base["n"]
        return {"gen": "add", "a": base, "b": {"gen": "scale", "c": R.choice([1e-13, 1e-14, 1e-16]),
                                                "of": G(n, n, R.randrange(10 ** 6))}}
    F("decomp.hessenberg.is_hessenberg", lambda R: ([R.choice([_sq(R), {"gen": "hess", "n": R.randint(1, 5), "seed": R.randrange(10 ** 6)}])], {}))
    F("decomp.hessenberg.check_hessenberg",
      lambda R: ([R.choice([_sq(R), near(R, {"gen": "hess", "n": R.randint(2, 5), "seed": R.randrange(10 ** 6)}),
                            near(R, {"gen": "hess", "n": R.randint(3, 5), "seed": R.randrange(10 ** 6)})])], {}), 2)
    F("decomp.quaternion_schur", lambda R: ([_schur_arg(R)],
                                          {"max_iter": 40, "shift": R.choice(["wilkinson", "rayleigh"]), "return_diagnostics": R.random() < 0.4}))
    F("decomp.quaternion_schur_pure", lambda R: ([_schur_arg(R)],
                                               {"max_iter": 25, "return_diagnostics": R.random() < 0.4}))
    F("decomp.quaternion_schur_pure_implicit",
      lambda R: ([_schur_arg(R)],
                 {"max_iter": 25, "return_diagnostics": R.random() < 0.4}))
    F("decomp.quaternion_schur_unified",
      lambda R: ([_schur_arg(R)],
                 {"max_iter": 25, "variant": R.choice(["rayleigh", "implicit", "aed", "ds", "none"]),
                  "return_diagnostics": R.random() < 0.4}), 2)
    F("decomp.schur.quaternion_schur_experimental",
      lambda R: ([_schur_arg(R)],
                 {"max_iter": 20, "return_diagnostics": R.random() < 0.4}))
    # helpers of the decompositions
    def hv(R):
        n = R.randint(1, 4)
        return [G(n, 1, R.randrange(10 ** 6)), {"gen": "real", "m": n, "n": 1, "seed": R.randrange(10 ** 6)}], {}
    F("decomp.tridiagonalize.householder_vector", hv)
    F("decomp.tridiagonalize.householder_matrix", hv)
    F("decomp.tridiagonalize.internal_tridiagonalizer", lambda R: ([_herm(R, 2, 4)], {}))
    F("decomp.tridiagonalize.check_tridiagonal",
      lambda R: ([R.choice([_herm(R, 2, 4),
                            {"gen": "add", "a": {"gen": "tridiag_herm", "n": 4, "seed": R.randrange(10 ** 6)},
                             "b": {"gen": "scale", "c": 1e-14, "of": HERM(4, R.randrange(10 ** 6))}}])], {}), 2)
    F("utils.quat_abs_scalar", lambda R: ([{"gen": "qscalar", "q": [R.uniform(-2, 2) for _ in range(4)]}], {}))
    # image / restoration helpers (qslst)
    def img(R, c=4):
        # Gaussian data, or image-like data: inside [0, 1], or with the slight under/overshoot a
        # restoration leaves (the "values look normalised" branches are data dependent)
        d = {"gen": "realnd", "shape": [R.randint(1, 4), R.randint(1, 4), c], "seed": R.randrange(10 ** 6)}
        x = R.random()
        if x < 0.3:
            d.update(lo=0.0, hi=1.0)
        elif x < 0.6:
            d.update(lo=-0.3, hi=1.3)
        return d
    F("qslst.rgb_to_quat", lambda R: ([img(R, 3)], {"real_part": R.choice([0.0, 0.5])}))
    F("qslst.quat_to_rgb", lambda R: ([img(R, 4)], {"clip": R.random() < 0.5}))
    F("qslst.split_quat_channels", lambda R: ([img(R, 4)], {}))
    F("qslst.build_psf_gaussian", lambda R: ([R.randint(0, 2), R.choice([0.5, 1.0])], {}))
    F("qslst.build_psf_motion", lambda R: ([R.randint(1, 4), R.choice([0.0, 30.0, 90.0])], {}))

    def blur(R):
        h, w = R.randint(3, 5), R.randint(3, 5)
        return [{"gen": "realnd", "shape": [h, w, 4], "seed": R.randrange(10 ** 6)},
                {"gen": "real", "m": R.choice([1, 3]), "n": R.choice([1, 3]), "seed": R.randrange(10 ** 6)}], {}
    F("qslst.apply_blur_fft", blur)
    F("qslst.qslst_restore_fft", lambda R: (blur(R)[0] + [R.choice([0.01, 0.1, 1.0])], {}))

    def rm(R):
        h, w = R.randint(1, 3), R.randint(1, 3)
        return [{"gen": "realnd", "shape": [h, w, 4], "seed": R.randrange(10 ** 6)},
                {"gen": "real", "m": h * w, "n": h * w, "seed": R.randrange(10 ** 6)}, R.choice([0.0, 0.1])], {}
    F("qslst.qslst_restore_matrix", rm)

    def two(R):
        shp = [R.randint(1, 3), R.randint(1, 3), 4]
        return [{"gen": "realnd", "shape": shp, "seed": R.randrange(10 ** 6)},
                {"gen": "realnd", "shape": shp, "seed": R.randrange(10 ** 6)}], {}
    F("qslst.psnr", two)
    F("qslst.relative_error", two)
    # data generation
    F("data_gen.create_test_matrix",
      lambda R: ([R.randint(1, 5), R.randint(1, 5)], R.choice([{}, {"rank": 1}, {"cond_number": 10.0}])), 2)
    F("data_gen.generate_random_unitary_matrix", lambda R: ([R.randint(1, 4)], {}))
    F("data_gen.create_sparse_quat_matrix", lambda R: ([R.randint(1, 5), R.randint(1, 5)], {"density": 0.5}))
    F("data_gen.small_test_Mat", lambda R: ([], {}))
    # tensors
    F("tensor.tensor_frobenius_norm", lambda R: ([{"gen": "qnd", "shape": [2, 3, 2], "seed": R.randrange(10 ** 6)}], {}))
    F("tensor.tensor_entrywise_abs", lambda R: ([{"gen": "qnd", "shape": [2, 3, 2], "seed": R.randrange(10 ** 6)}], {}))
    F("tensor.tensor_unfold", lambda R: ([{"gen": "qnd", "shape": [2, 3, 4], "seed": R.randrange(10 ** 6)},
                                          R.randint(0, 2)], {}))

    def tf(R):
        mode = R.randint(0, 2)
        shape = [2, 3, 4]
        rows = shape[mode]
        cols = 24 // rows
        return [G(rows, cols, R.randrange(10 ** 6)), mode, {"gen": "tuple", "items": shape}], {}
    F("tensor.tensor_fold", tf)
    return C


CATALOGUE = _catalogue()
_CAT_W = [c[2] for c in CATALOGUE]


_OFFTYPE_P = float(os.environ.get("QSIM_C14_OFFTYPE_P", "0.05"))
# unary matrix routines that are cheap enough at n = 16 and take any (square / Hermitian) matrix
_BIG_OK = {"decomp.hessenberg.hessenbergize", "decomp.hessenberg.is_hessenberg", "decomp.hessenberg.check_hessenberg",
           "decomp.tridiagonalize", "decomp.quaternion_eigenvalues", "decomp.quaternion_eigendecomposition",
           "decomp.quaternion_eigenvectors", "decomp.quaternion_lu", "decomp.qsvd.qr_qua", "decomp.qsvd.classical_qsvd_full",
           "decomp.quaternion_schur", "decomp.quaternion_schur_pure", "decomp.quaternion_schur_unified",
           "utils.rank", "utils.quat_frobenius_norm", "utils.quat_hermitian", "utils.induced_matrix_norm_1",
           "utils.induced_matrix_norm_inf", "utils.spectral_norm_2", "utils.real_expand", "utils.ishermitian",
           "utils.quaternion_to_complex_adjoint", "decomp.quaternion_modulus", "decomp.quaternion_triu",
           "decomp.quaternion_tril", "utils.quat_null_space", "utils.normQ"}


def gen_fn_step(R, client):
    name, gen, _w = R.choices(CATALOGUE, weights=_CAT_W)[0]
    args, kwargs = gen(R)
    offtype = False
    if R.random() < _OFFTYPE_P:
        # off-type request: the first dense quaternion matrix is handed over as a
        # SparseQuaternionMatrix.  Whatever the routine does with it (answer or raise), it must
        # do the same in every import world and the same as the pristine world.
        for ai, a in enumerate(args):
            if isinstance(a, dict) and a.get("gen") in ("gauss", "int", "psvd", "herm", "zeros") \
                    and "storage" not in a and "layout" not in a:
                args = list(args)
                args[ai] = SP(a)
                offtype = True
                break
    if R.random() < 0.04 and name in _BIG_OK and args and isinstance(args[0], dict) \
            and args[0].get("gen") in ("gauss", "herm") and "storage" not in args[0]:
        # a mid-size argument (n = 12..16): code paths that switch on a size threshold
        nb = R.randint(12, 16)
        a0 = args[0]
        if a0["gen"] == "herm":
            big = dict(a0, n=nb, lam=[round(R.choice([-1, 1]) * R.uniform(0.2, 3.0), 4) for _ in range(nb)])
        elif a0.get("m") == a0.get("n"):
            big = dict(a0, m=nb, n=nb)
        else:
            big = dict(a0, m=nb + R.randint(0, 3), n=nb)
        args = [big] + list(args[1:])
        if "max_iter" in (kwargs or {}):
            kwargs = dict(kwargs, max_iter=min(kwargs["max_iter"], 6))
    for ai, a in enumerate(args):
        if isinstance(a, dict) and a.get("storage") == "sparse" and "explicit_zeros" not in a:
            x = R.random()
            if x < 0.4:     # a legal CSR layout that stores its zeros / integer-valued components
                args = list(args)
                args[ai] = dict(a, explicit_zeros=True, **({"int_dtype": True} if x < 0.1 else {}))
    st = {"k": "fn", "fn": name, "args": args, "client": client}
    if offtype:
        st["tags"] = {"offtype": "sparse"}
    if kwargs:
        st["kwargs"] = kwargs
    return st


HERM_ONLY = ("decomp.tridiagonalize", "decomp.quaternion_eigendecomposition", "decomp.quaternion_eigenvalues",
             "decomp.quaternion_eigenvectors")


def gen_flow(R, client, at):
    """Dataflow between library calls: a producer step and a consumer that receives (part of)
    its returned value.  `at` is the index the producer will have in the trace."""
    res = {"gen": "result", "of": at}
    kind = R.choice(["sparse", "sparse", "test_matrix", "unitary", "qr", "lu", "svd", "hermitian"])
    if kind == "sparse":
        m, n = R.randint(1, 5), R.randint(1, 5)
        prod = {"k": "fn", "fn": "data_gen.create_sparse_quat_matrix", "args": [m, n], "kwargs": {"density": 0.6}}
        cons = R.choice([
            {"k": "fn", "fn": "utils.quat_frobenius_norm", "args": [res]},
            {"k": "fn", "fn": "utils.quat_hermitian", "args": [res]},
            {"k": "fn", "fn": "utils.matrix_norm", "args": [res, "fro"]},
            {"k": "fn", "fn": "utils.quat_matmat", "args": [res, G(n, R.randint(1, 3), R.randrange(10 ** 6))]},
            {"k": "fn", "fn": "utils.quat_matmat", "args": [G(R.randint(1, 3), m, R.randrange(10 ** 6)), res]}])
    elif kind == "test_matrix":
        m, n = R.randint(1, 5), R.randint(1, 5)
        prod = {"k": "fn", "fn": "data_gen.create_test_matrix", "args": [m, n]}
        cons = R.choice([{"k": "fn", "fn": "utils.rank", "args": [res]},
                         {"k": "fn", "fn": "decomp.qsvd.qr_qua", "args": [res]},
                         {"k": "fn", "fn": "decomp.qsvd.classical_qsvd_full", "args": [res]}])
    elif kind == "unitary":
        prod = {"k": "fn", "fn": "data_gen.generate_random_unitary_matrix", "args": [R.randint(1, 4)]}
        cons = R.choice([{"k": "fn", "fn": "utils.ishermitian", "args": [res]},
                         {"k": "fn", "fn": "decomp.hessenberg.hessenbergize", "args": [res]},
                         {"k": "fn", "fn": "utils.spectral_norm_2", "args": [res]}])
    elif kind == "qr":
        prod = {"k": "fn", "fn": "decomp.qsvd.qr_qua", "args": [G(R.randint(2, 5), R.randint(1, 3), R.randrange(10 ** 6))]}
        cons = {"k": "fn", "fn": "utils.quat_matmat", "args": [dict(res, pick=0), dict(res, pick=1)]}
    elif kind == "lu":
        A = G(R.randint(2, 4), R.randint(2, 4), R.randrange(10 ** 6))
        prod = {"k": "fn", "fn": "decomp.quaternion_lu", "args": [A]}
        cons = {"k": "fn", "fn": "decomp.verify_lu_decomposition", "args": [A, dict(res, pick=0), dict(res, pick=1)]}
    elif kind == "svd":
        A = G(R.randint(2, 5), R.randint(2, 4), R.randrange(10 ** 6))
        prod = {"k": "fn", "fn": "decomp.qsvd.classical_qsvd_full", "args": [A]}
        cons = R.choice([{"k": "fn", "fn": "utils.quat_hermitian", "args": [dict(res, pick=0)]},
                         {"k": "fn", "fn": "utils.quat_frobenius_norm", "args": [dict(res, pick=2)]}])
    else:
        H = _herm(R, 2, 4)
        prod = {"k": "fn", "fn": "decomp.quaternion_eigendecomposition", "args": [H]}
        cons = {"k": "fn", "fn": "decomp.eigen.verify_eigendecomposition", "args": [H, dict(res, pick=0), dict(res, pick=1)]}
    prod["client"] = client
    cons["client"] = client
    return prod, cons


# ------------------------------------------------------------------ generation

CLOCK_SCRIPTS = [None, [0.0], [1e-3, -3600.0, 1e6], [1e6], [-1.0], [5e-4, 0.0, 0.0, 7200.0]]


def gen_exhaustive(seed, world, cfgname, seq):
    name, cls, cfg, meth, pool = CONFIG_BY_NAME[cfgname]
    steps = [{"k": "rng", "op": "seed", "v": 1234},
             {"k": "new", "obj": "s0", "cls": cls, "cfg": cfg}]
    for pi in seq:
        steps.append({"k": "call", "obj": "s0", "meth": meth, "args": pool[pi], "client": 0, "pool": pi})
    return {"prop": PROP, "seed": seed, "world": world, "mode": "exhaustive", "cfgname": cfgname,
            "seq": list(seq), "steps": steps}


def gen_recovery(seed, world, cfgname, p1, p2, picks):
    """Crash-recovery sweep: the call on problem p1 is crashed at `picks` sampled line events
    (fresh object each time), then problem p2 is solved fault-free on the SAME object and
    compared with the pristine world."""
    name, cls, cfg, meth, pool = CONFIG_BY_NAME[cfgname]
    sw = {"k": "sweep", "cls": cls, "cfg": cfg, "picks": picks, "pick_seed": seed,
          "focus": ["solve", "_GMRESQsparse", "compute", "compute_column_variant", "compute_row_variant",
                    "_rsp_step_column", "_solve_spd_quat", "_build_right_preconditioner"],
          "call": {"k": "call", "obj": "s0", "meth": meth, "args": pool[p1], "client": 0, "cfgname": cfgname},
          "then": [{"k": "call", "obj": "s0", "meth": meth, "args": pool[p2], "client": 1, "cfgname": cfgname}]}
    return {"prop": PROP, "seed": seed, "world": world, "mode": "recovery", "cfgname": cfgname,
            "seq": [p1, p2], "steps": [{"k": "rng", "op": "seed", "v": 4321}, sw]}


def _with_layout(R, args):
    """Give one dense matrix argument a non-default memory layout."""
    out = []
    for a in args:
        if isinstance(a, dict) and a.get("gen") in ("gauss", "psvd", "int", "herm") and not a.get("storage") \
                and R.random() < 0.5:
            a = dict(a, layout=R.choice(["F", "T", "strided"]))
        out.append(a)
    return out


def _twin(R, args):
    """Same shapes as a pool problem, different data (defeats caches keyed by shape)."""
    out = []
    for a in args:
        if isinstance(a, dict) and "seed" in a:
            a = dict(a, seed=a["seed"] + 1000 + R.randrange(3))
        out.append(a)
    return out


def _random_problem(R, cfgname):
    name, cls, cfg, meth, pool = CONFIG_BY_NAME[cfgname]
    x = R.random()
    if x < 0.4:
        return R.choice(pool)
    if x < 0.6:
        return _twin(R, R.choice(pool))
    s = R.randrange(10 ** 6)
    if name.startswith("gmres"):
        n = R.randint(1, 6)
        A = SQ(n, s, [round(R.uniform(0.3, 1.0), 4) for _ in range(n)])
        if R.random() < 0.25:
            A = SP(A)
            if R.random() < 0.4:
                A["explicit_zeros"] = True
        x = R.random()
        if x < 0.12:    # requests that pass the shape guards and fail inside the iteration
            return [A, {"gen": "ravel", "of": G(n, 1, s + 1)}]
        if x < 0.24:
            return [A, G(n, 2, s + 1)]
        return [A, G(n, 1, s + 1)]
    if name.startswith("deep"):
        m, d0 = R.randint(1, 4), R.randint(1, 3)
        layers = [d0] + [R.randint(1, 3) for _ in range(R.randint(1, 2))]
        return [G(max(m, d0), d0, s), layers]
    m, n = R.randint(1, 6), R.randint(1, 5)
    if name in ("hybrid", "cgne", "cgne_prec") and R.random() < 0.85 and m < n:
        m, n = n, m
    return [G(m, n, s)]


# attributes that mirror a constructor argument one-to-one (safe to re-assign between calls)
RECONFIG = {
    "solver.QGMRESSolver": [("tol", [1e-4, 1e-10]), ("max_iter", [None, 1, 3]), ("preconditioner", ["none", "left_lu"]),
                            ("verbose", [True, False])],
    "solver.RandomizedSketchProjectPseudoinverse": [("tol", [1e-3, 1e-8]), ("max_iter", [5, 30]), ("block_size", [1, 3, 16]),
                                                    ("test_sketch_size", [2, 8]), ("column_solver", ["qr", "spd"]),
                                                    ("verbose", [True, False])],
    "solver.HybridRSPNewtonSchulz": [("tol", [1e-3, 1e-9]), ("max_iter", [4, 20]), ("r", [1, 3]), ("p", [2, 4]), ("T", [1, 3]),
                                     ("column_solver", ["qr", "spd"])],
    "solver.CGNEQSolver": [("tol", [1e-3, 1e-10]), ("max_iter", [3, 50]), ("verbose", [True, False])],
    "solver.NewtonSchulzPseudoinverse": [("gamma", [0.5, 1.0]), ("max_iter", [3, 20]), ("tol", [1e-3, 1e-10]),
                                         ("compute_residuals", [True, False])],
    "solver.HigherOrderNewtonSchulzPseudoinverse": [("max_iter", [2, 10]), ("tol", [0.0, 1e-6])],
    "solver.DeepLinearNewtonSchulz": [("max_iter", [1, 3]), ("inner_iterations", [1, 2]), ("random_init", [True, False])],
}


def gen_random(seed, world, tier):
    R = sub_rng(seed, "C14")
    nclients = R.randint(1, 3)
    nobj = R.randint(1, 3)
    cfgs = [R.choice(CONFIGS)[0] for _ in range(nobj)]
    steps = []
    if R.random() < 0.7:
        steps.append({"k": "rng", "op": "seed", "v": R.randrange(1000)})
    made = set()
    length = R.randint(3, 12 if tier == "quick" else 16)
    faulty = R.random() < 0.5
    nfaults = R.randint(1, 3) if faulty else 0
    fault_slots = set(R.sample(range(length), min(nfaults, length)))
    for pos in range(length):
        client = R.randrange(nclients)
        x = R.random()
        # world events between any two steps
        if x < 0.16:
            ev = R.random()
            if ev < 0.35:
                steps.append({"k": "rng", "op": "draw", "n": R.randint(1, 50), "client": client})
            elif ev < 0.6:
                steps.append({"k": "rng", "op": "seed", "v": R.randrange(1000), "client": client})
            elif ev < 0.8:
                steps.append({"k": "clock", "jump": R.choice([1e6, -3600.0, 0.5]), "client": client})
            else:
                # construction of another seeded solver: a constructor side effect on the shared stream
                steps.append({"k": "new", "obj": f"x{pos}", "cls": "solver.CGNEQSolver",
                              "cfg": {"seed": R.randrange(100)}, "client": client, "keep": True})
            continue
        if x < 0.22:
            prod, st = gen_flow(R, client, len(steps))
            steps.append(prod)
        elif x < 0.27:
            # a request outside the domain of a Hermitian-only routine, through a reused buffer
            st = {"k": "fn", "fn": R.choice(HERM_ONLY), "client": client,
                  "args": [dict(R.choice([_herm(R, 3, 3), G(3, 3, R.randrange(10 ** 6)), _herm(R, 3, 3)]), buf="H3")]}
        elif x < 0.45:
            st = gen_fn_step(R, client)
            if R.random() < 0.25 and st["fn"] not in _inplace():
                st["args"] = _with_layout(R, st["args"])
            elif R.random() < 0.2 and st["args"] and isinstance(st["args"][0], dict) \
                    and st["args"][0].get("gen") in ("gauss", "psvd", "herm", "int") and st["fn"] not in _inplace():
                st["args"] = [dict(st["args"][0], buf="F")] + st["args"][1:]
        else:
            oi = R.randrange(nobj)
            cname = cfgs[oi]
            name, cls, cfg, meth, pool = CONFIG_BY_NAME[cname]
            if oi not in made:
                steps.append({"k": "new", "obj": f"s{oi}", "cls": cls, "cfg": cfg, "client": client})
                made.add(oi)
                if R.random() < 0.3:   # an event between construction and call
                    steps.append({"k": "rng", "op": R.choice(["draw", "seed"]), "n": R.randint(1, 30),
                                  "v": R.randrange(1000), "client": (client + 1) % nclients})
            elif R.random() < 0.12 and cls in RECONFIG:
                attr, vals = R.choice(RECONFIG[cls])
                steps.append({"k": "setattr", "obj": f"s{oi}", "attr": attr, "v": R.choice(vals), "client": client})
            st = {"k": "call", "obj": f"s{oi}", "meth": meth, "args": _random_problem(R, cname),
                  "client": client, "cfgname": cname}
            if R.random() < 0.2:
                st["args"] = _with_layout(R, st["args"])
            elif R.random() < 0.3 and isinstance(st["args"][0], dict):   # dense ndarray or sparse object
                # the client reuses one buffer for its matrices (refilled in place between calls)
                st["args"] = [dict(st["args"][0], buf=f"A{oi}")] + st["args"][1:]
        if R.random() < 0.35:
            st["clock"] = R.choice(CLOCK_SCRIPTS[1:]) if R.random() < 0.5 else rand_clock(R)
        if R.random() < 0.15 and st.get("fn") not in _inplace():
            st["readonly"] = True
        if pos in fault_slots and pos < length - 1:
            fk = R.random()
            if fk < 0.08:
                # an internal LAPACK-backed factorisation fails (LinAlgError) instead of a line fault
                st["fault"] = {"linalg_fail": {"fn": R.choice(["svd", "qr", "qr", "eigh", "eig", "inv", "solve"]),
                                               "k": R.choice([1, 1, 2, 3])}}
            elif fk < 0.55:
                st["fault"] = {"line": R.choice([R.randint(1, 40), R.randint(1, 400), R.randint(1, 4000)])}
            elif fk < 0.75:
                st["fault"] = {"spd_fallback": True}
            elif fk < 0.9 and st.get("cfgname", "").startswith("gmres_lu"):
                st["fault"] = {"lu_fail": True}
            else:
                st["fault"] = {"jitter": R.randrange(2 ** 31)}
        steps.append(st)
        if st["k"] == "fn" and "fault" not in st and R.random() < 0.10 and st["fn"] not in _inplace():
            steps.append({"k": "mutate", "of": len(steps) - 1, "client": client})
        elif st["k"] in ("call", "fn") and "fault" not in st and R.random() < 0.12:
            steps.append({"k": "repeat", "of": len(steps) - 1, "client": R.randrange(nclients)})
        elif st["k"] in ("call", "fn") and "fault" not in st and R.random() < 0.10 \
                and not any(isinstance(a, dict) and a.get("gen") == "result" for a in st.get("args", [])):
            steps.append({"k": "reissue", "of": len(steps) - 1, "shift": R.randint(1, 40),
                          "client": R.randrange(nclients)})
    return {"prop": PROP, "seed": seed, "world": world, "mode": "random", "steps": steps, "auto_reissue": 0.3}


def gen_jobs(base_seed, tier, budget=None):
    worlds = WORLDS_QUICK if tier == "quick" else WORLDS_THOROUGH
    jobs = []
    # exhaustive: every sequence of 3 calls (hence every prefix) from the pool of 4, per configuration
    exh_worlds = ("pkg",) if tier == "quick" else worlds
    sid = 0
    for cfgname, *_ in CONFIGS:
        for seq in itertools.product(range(4), repeat=3):
            for w in exh_worlds:
                jobs.append({"seed": base_seed * 10 ** 6 + 800000 + sid,
                             "trace": gen_exhaustive(base_seed * 10 ** 6 + 800000 + sid, w, cfgname, seq)})
            sid += 1
    # crash recovery, per configuration: crash a call on a small problem at sampled line
    # events, then a larger problem on the same object (and the reverse order)
    picks = 10 if tier == "quick" else 40
    for cfgname, *_ in CONFIGS:
        for (p1, p2) in ((0, 2), (1, 2), (2, 1)) if tier == "quick" else ((0, 2), (1, 2), (2, 1), (3, 2), (1, 0), (2, 3)):
            for w in exh_worlds:
                jobs.append({"seed": base_seed * 10 ** 6 + 700000 + sid,
                             "trace": gen_recovery(base_seed * 10 ** 6 + 700000 + sid, w, cfgname, p1, p2, picks)})
            sid += 1
    # values returned by the library's "factory" helpers are overwritten by the caller, then each
    # configuration is exercised (an internally shared / cached identity or test matrix would leak)
    for cfgname, cls_, cfg_, meth_, pool_ in CONFIGS:
        for w in exh_worlds:
            seed = base_seed * 10 ** 6 + 610000 + sid
            steps = [{"k": "rng", "op": "seed", "v": 31}]
            for n_ in (1, 2, 3, 4, 5, 6):
                steps.append({"k": "fn", "fn": "utils.quat_eye", "args": [n_], "client": 1})
                steps.append({"k": "mutate", "of": len(steps) - 1, "client": 1})
            steps.append({"k": "fn", "fn": "data_gen.small_test_Mat", "args": [], "client": 1})
            steps.append({"k": "mutate", "of": len(steps) - 1, "client": 1})
            steps.append({"k": "new", "obj": "s0", "cls": cls_, "cfg": cfg_})
            for pi in (1, 2, 0):
                steps.append({"k": "call", "obj": "s0", "meth": meth_, "args": pool_[pi], "client": 0, "cfgname": cfgname})
            steps.append({"k": "fn", "fn": "data_gen.small_test_Mat", "args": [], "client": 1})
            jobs.append({"seed": seed, "trace": {"prop": PROP, "seed": seed, "world": w, "mode": "buffer",
                                                 "cfgname": cfgname, "seq": ["factory-mutate"], "steps": steps}})
        sid += 1
    # re-configuration: every mirrored attribute is switched between its candidate values on a live
    # object (in particular from a falsy value to a real one), a call after every switch
    for cfgname, cls_, cfg_, meth_, pool_ in CONFIGS:
        for attr, vals in RECONFIG.get(cls_, []):
            for w in exh_worlds:
                seed = base_seed * 10 ** 6 + 620000 + sid
                steps = [{"k": "rng", "op": "seed", "v": 55}, {"k": "new", "obj": "s0", "cls": cls_, "cfg": cfg_},
                         {"k": "call", "obj": "s0", "meth": meth_, "args": pool_[1], "client": 0, "cfgname": cfgname}]
                for v in list(vals) + [vals[0]]:
                    steps.append({"k": "setattr", "obj": "s0", "attr": attr, "v": v, "client": 1})
                    steps.append({"k": "call", "obj": "s0", "meth": meth_, "args": pool_[1], "client": 0, "cfgname": cfgname})
                jobs.append({"seed": seed, "trace": {"prop": PROP, "seed": seed, "world": w, "mode": "buffer",
                                                     "cfgname": cfgname, "seq": ["reconfig", attr], "steps": steps}})
            sid += 1
    # buffer reuse: the same ndarray object, refilled in place with another problem of the same
    # shape, handed to the same solver object (defeats caches keyed by object identity)
    for cfgname, cls_, cfg_, meth_, pool_ in CONFIGS:
        for pi in (1, 2, 3):    # (pool entry 3 is the sparse / rank-deficient / other-orientation problem:
            #                      a client-kept SPARSE object whose components are replaced between calls)
            for w in exh_worlds:
                seed = base_seed * 10 ** 6 + 600000 + sid
                a1 = [dict(pool_[pi][0], buf="B")] + pool_[pi][1:] if isinstance(pool_[pi][0], dict) else pool_[pi]
                tw = _twin(sub_rng(seed, "buf"), pool_[pi])
                a2 = [dict(tw[0], buf="B")] + tw[1:] if isinstance(tw[0], dict) else tw
                steps = [{"k": "rng", "op": "seed", "v": 77}, {"k": "new", "obj": "s0", "cls": cls_, "cfg": cfg_},
                         {"k": "call", "obj": "s0", "meth": meth_, "args": a1, "client": 0, "cfgname": cfgname},
                         {"k": "call", "obj": "s0", "meth": meth_, "args": a2, "client": 0, "cfgname": cfgname},
                         {"k": "call", "obj": "s0", "meth": meth_, "args": a1, "client": 0, "cfgname": cfgname}]
                jobs.append({"seed": seed, "trace": {"prop": PROP, "seed": seed, "world": w, "mode": "buffer",
                                                     "cfgname": cfgname, "seq": [pi, "twin", pi], "steps": steps}})
            sid += 1
    # the same buffer handed three times to a Hermitian-only routine: Hermitian, refilled with a
    # non-Hermitian matrix, refilled with another Hermitian one (a validation result remembered by
    # object identity would let the second request through)
    for fn in HERM_ONLY + ("utils.det",):
        for w in exh_worlds:
            seed = base_seed * 10 ** 6 + 650000 + sid
            extra = ["Moore"] if fn == "utils.det" else []
            H1, N1, H2 = dict(HERM(4, 61), buf="W"), dict(G(4, 4, 62), buf="W"), dict(HERM(4, 63, [1.5, 0.7, -0.2, -1.1]), buf="W")
            steps = [{"k": "fn", "fn": fn, "args": [a] + extra, "client": 0} for a in (H1, N1, H2, N1, H1)]
            jobs.append({"seed": seed, "trace": {"prop": PROP, "seed": seed, "world": w, "mode": "buffer",
                                                 "cfgname": fn, "seq": ["H", "N", "H", "N", "H"], "steps": steps}})
        sid += 1
    # every catalogue routine that consumes the shared random stream, three times in a row with the
    # SAME arguments from different stream states (a memo filled by the first call - cached random
    # factors, a cached sketch - makes the later calls draw less and return something else)
    rnd_calls = [("data_gen.create_test_matrix", [4, 4], {}), ("data_gen.create_test_matrix", [4, 3], {"rank": 2}),
                 ("data_gen.create_test_matrix", [4, 4], {"cond_number": 10.0}),
                 ("data_gen.create_test_matrix", [3, 3], {"cond_number": 100.0}),
                 ("data_gen.generate_random_unitary_matrix", [3], {}),
                 ("data_gen.create_sparse_quat_matrix", [4, 4], {"density": 0.5}),
                 ("utils.power_iteration", [HERM(4, 71)], {"max_iterations": 3, "return_eigenvalue": True}),
                 ("decomp.qsvd.rand_qsvd", [G(5, 4, 72), 2], {"oversample": 1, "n_iter": 1}),
                 ("decomp.qsvd.pass_eff_qsvd", [G(5, 4, 73), 2], {"oversample": 1, "n_passes": 2})]
    for fi, (fn_, args_, kw_) in enumerate(rnd_calls):
        seed = base_seed * 10 ** 6 + 530000 + fi
        st_ = {"k": "fn", "fn": fn_, "args": args_, "client": 0, **({"kwargs": kw_} if kw_ else {})}
        for w in exh_worlds:
            steps = [{"k": "rng", "op": "seed", "v": 11}, dict(st_), {"k": "rng", "op": "seed", "v": 12}, dict(st_),
                     {"k": "rng", "op": "draw", "n": 7}, dict(st_)]
            jobs.append({"seed": seed, "trace": {"prop": PROP, "seed": seed, "world": w, "mode": "offtype",
                                                 "cfgname": fn_ + repr(sorted(kw_.items())), "seq": ["repeat3"], "steps": steps}})
    # already-reduced inputs, per routine of the reduction / Schur family: exactly upper Hessenberg,
    # exactly triangular, Hermitian tridiagonal, 2 x 2 - the inputs for which a reduction step can
    # be skipped (and the caller's array then used as the work array)
    def _S(n_, sd_):
        return [{"gen": "hess", "n": n_, "seed": sd_}, {"gen": "hess", "n": 3, "seed": sd_ + 1},
                {"gen": "tri", "n": n_, "seed": sd_ + 2, "upper": True}, {"gen": "tridiag_herm", "n": n_, "seed": sd_ + 3},
                G(2, 2, sd_ + 4), {"gen": "add", "a": {"gen": "hess", "n": n_, "seed": sd_ + 5},
                                   "b": {"gen": "scale", "c": 1e-17, "of": G(n_, n_, sd_ + 6)}}]
    fam = [("decomp.quaternion_schur", {"max_iter": 30, "shift": "wilkinson"}),
           ("decomp.quaternion_schur", {"max_iter": 30, "shift": "rayleigh"}),
           ("decomp.quaternion_schur_pure", {"max_iter": 25}),
           ("decomp.quaternion_schur_pure_implicit", {"max_iter": 25}),
           ("decomp.schur.quaternion_schur_experimental", {"max_iter": 20}),
           ("decomp.hessenberg.hessenbergize", {}), ("decomp.hessenberg.check_hessenberg", {}),
           ("decomp.hessenberg.is_hessenberg", {})] + \
          [("decomp.quaternion_schur_unified", {"max_iter": 25, "variant": v_}) for v_ in ("rayleigh", "implicit", "aed", "ds", "none")]
    for fi, (fn_, kw_) in enumerate(fam):
        seed = base_seed * 10 ** 6 + 520000 + fi
        for w in exh_worlds:
            steps = [{"k": "fn", "fn": fn_, "args": [a_], "client": 0, **({"kwargs": kw_} if kw_ else {})}
                     for a_ in _S(4, 300 + 10 * fi)]
            jobs.append({"seed": seed, "trace": {"prop": PROP, "seed": seed, "world": w, "mode": "offtype",
                                                 "cfgname": fn_ + repr(sorted(kw_.items())), "seq": ["reduced"], "steps": steps}})
    # mid-size arguments (n = 13, C-contiguous), once per unary matrix routine: code paths that switch
    # on a size threshold (blocked / in-place variants for "large" inputs)
    G13, H13 = G(13, 13, 801), HERM(13, 802, [round(2.0 - 0.25 * i_, 3) for i_ in range(13)])
    big_calls = [("decomp.hessenberg.hessenbergize", [G13], {}), ("decomp.hessenberg.check_hessenberg", [G13], {}),
                 ("decomp.tridiagonalize", [H13], {}), ("decomp.quaternion_eigenvalues", [H13], {}),
                 ("decomp.quaternion_lu", [G13], {"return_p": True}), ("decomp.qsvd.qr_qua", [G(14, 12, 803)], {}),
                 ("decomp.qsvd.classical_qsvd_full", [G(13, 12, 804)], {}), ("utils.rank", [G13], {}),
                 ("decomp.quaternion_schur", [G13], {"max_iter": 3}), ("decomp.quaternion_schur_pure", [G13], {"max_iter": 3}),
                 ("decomp.quaternion_schur_unified", [G13], {"max_iter": 3, "variant": "aed"}),
                 ("utils.quat_null_space", [G(12, 13, 805)], {}), ("utils.spectral_norm_2", [G13], {}),
                 ("utils.quaternion_to_complex_adjoint", [G13], {}), ("utils.det", [H13, "Moore"], {})]
    for bi in range(0, len(big_calls), 5):
        seed = base_seed * 10 ** 6 + 540000 + bi
        for w in exh_worlds:
            steps = [{"k": "fn", "fn": fn_, "args": a_, "client": 0, **({"kwargs": kw_} if kw_ else {})}
                     for fn_, a_, kw_ in big_calls[bi:bi + 5]]
            jobs.append({"seed": seed, "trace": {"prop": PROP, "seed": seed, "world": w, "mode": "offtype",
                                                 "cfgname": "midsize", "seq": [bi], "steps": steps}})
    # off-type table: every catalogue function (and every solver configuration) once with its
    # first dense quaternion matrix handed over as a SparseQuaternionMatrix, in EVERY world -
    # answered or rejected, the outcome must not depend on the import style (class identity)
    seen = set()
    for ci, (name, gen, _w) in enumerate(CATALOGUE):
        R = sub_rng(base_seed, "offtype", ci)
        for _try in range(4):
            args, kwargs = gen(R)
            ai = next((k for k, a in enumerate(args) if isinstance(a, dict)
                       and a.get("gen") in ("gauss", "int", "psvd", "herm", "zeros") and "storage" not in a), None)
            if ai is not None:
                break
        if ai is None or (name, ai) in seen:
            continue
        seen.add((name, ai))
        args = list(args)
        args[ai] = SP(args[ai])
        st = {"k": "fn", "fn": name, "args": args, "client": 0, "tags": {"offtype": "sparse"}}
        if kwargs:
            st["kwargs"] = kwargs
        seed = base_seed * 10 ** 6 + 500000 + ci
        for w in worlds:
            jobs.append({"seed": seed, "trace": {"prop": PROP, "seed": seed, "world": w, "mode": "offtype",
                                                 "cfgname": name, "seq": ["sparse"],
                                                 "steps": [{"k": "rng", "op": "seed", "v": 17}, st]}})
    for ci, (cfgname, cls_, cfg_, meth_, pool_) in enumerate(CONFIGS):
        prob = next((p_ for p_ in pool_[1:] if isinstance(p_[0], dict) and "storage" not in p_[0]), None)
        if prob is None:
            continue
        seed = base_seed * 10 ** 6 + 510000 + ci
        for w in worlds:
            steps = [{"k": "rng", "op": "seed", "v": 17}, {"k": "new", "obj": "s0", "cls": cls_, "cfg": cfg_},
                     {"k": "call", "obj": "s0", "meth": meth_, "args": [SP(prob[0])] + list(prob[1:]), "client": 0,
                      "cfgname": cfgname, "tags": {"offtype": "sparse"}}]
            jobs.append({"seed": seed, "trace": {"prop": PROP, "seed": seed, "world": w, "mode": "offtype",
                                                 "cfgname": cfgname, "seq": ["sparse"], "steps": steps}})
    n_rand = budget if budget is not None else (600 if tier == "quick" else 12000)
    for i in range(n_rand):
        seed = base_seed * 10 ** 6 + i
        for w in worlds:     # the same trace in every world (import-identity oracle)
            jobs.append({"seed": seed, "trace": gen_random(seed, w, tier)})
    return jobs, worlds


# ------------------------------------------------------------------ oracles

class Hooks(BaseHooks):
    def __init__(self, trace):
        super().__init__(trace)
        self.cnt = {"calls": 0, "fn": 0, "raised": 0, "obj_mutations": 0, "fault_raised": 0,
                    "fault_swallowed": 0, "repeats": 0, "after_fault_calls": 0}
        self.faulted_objs = set()
        self.need = []

    def after_step(self, ex, i, step, rec, viol):
        k = rec["k"]
        if k not in ("call", "fn", "repeat", "reissue"):
            return
        if self.trace.get("mode") == "recovery":
            # sub-steps of a crash-recovery sweep: only argument immutability is judged here;
            # the follow-up calls are compared with the pristine world in ref_requests
            if rec["args_changed"]:
                viol.append(V("args_mutated", i, f"{step.get('meth')} changed argument(s) {rec['args_changed']} in place"))
            if (step.get("fault") or {}).get("line") and rec.get("fault_fired"):
                self.cnt["fault_raised" if rec["ok"] == "exc" else "fault_swallowed"] += 1
            return
        src = self.trace["steps"][step["of"]] if k in ("repeat", "reissue") else step
        name = src.get("fn") or f"{ex.objcfg[src['obj']][0]}.{src['meth']}"
        self.cnt["calls" if "obj" in src else "fn"] += 1
        if rec["ok"] == "exc":
            self.cnt["raised"] += 1
        fault = (step.get("fault") or {}) if k not in ("repeat", "reissue") else {}
        if k in ("call", "fn") and rec.get("reseeds"):
            viol.append(V("rng_reset", i, f"{name} re-seeded numpy's global generator during the call "
                                          f"({rec['reseeds']} call(s) of np.random.seed)"))
        ar = rec.get("auto_reissue")
        if ar:
            self.cnt["reissues"] = self.cnt.get("reissues", 0) + 1
            if ar["rng_before"] != rec["rng_before"] and ar["rng_after"] == rec["rng_after"]:
                viol.append(V("rng_reset", i, f"{name} leaves the shared generator in the same state whatever state "
                                              f"it found it in: it resets the global stream instead of consuming it"))
        if k == "reissue":
            orig = ex.recs[step["of"]]
            self.cnt["reissues"] = self.cnt.get("reissues", 0) + 1
            if orig["rng_before"] != orig["rng_after"] and rec["rng_before"] != orig["rng_before"] \
                    and rec["rng_after"] == orig["rng_after"]:
                viol.append(V("rng_reset", i, f"{name} leaves the shared generator in the same state whatever state it "
                                              f"found it in: it re-seeds the global stream instead of consuming it"))
        # oracle 1: arguments bit-identical before/after (also when the call raises)
        if rec["args_changed"] and src.get("fn") not in _inplace():
            viol.append(V("args_mutated", i, f"{name} changed argument(s) {rec['args_changed']} in place"))
        if rec.get("obj_before") != rec.get("obj_after"):
            self.cnt["obj_mutations"] += 1
        if "obj" in src and src["obj"] in self.faulted_objs and not fault:
            self.cnt["after_fault_calls"] += 1
        hard = bool((fault.get("line") or fault.get("linalg_fail")) and rec.get("fault_fired")) or any(
            f in fault for f in ("spd_fallback", "lu_fail", "jitter"))
        if (fault.get("line") or fault.get("linalg_fail")) and rec.get("fault_fired"):
            self.cnt["fault_raised" if rec["ok"] == "exc" else "fault_swallowed"] += 1
        if hard and "obj" in src:
            self.faulted_objs.add(src["obj"])
        if k == "repeat":
            self.cnt["repeats"] += 1
            orig = ex.recs[step["of"]]
            if orig["ok"] != rec["ok"] or orig.get("digest") != rec.get("digest") or orig.get("exc") != rec.get("exc"):
                viol.append(V("repeat", i, f"repeating {name} with the same arguments and RNG state "
                                           f"gave a different result ({orig.get('summary')} vs {rec.get('summary')})"))
        # oracle 2/5/7: refinement against the pristine world (fault-free steps only;
        # under a fault the call may fail or take another path, DESIGN section 5)
        if not hard and not (fault.get("line") and not rec.get("fault_fired") and False):
            self.need.append(i)

    def after_run(self, ex, viol):
        # values already handed to the caller must stay what they were: a later call must not
        # reach back into them (returned objects aliasing internal state)
        from ..world import TIMING_IDX, digest
        for i, rec in enumerate(ex.recs):
            if rec.get("k") not in ("call", "fn") or rec.get("ok") != "ret" or "digest" not in rec \
                    or rec.get("client_mutated"):
                continue
            step = self.trace["steps"][i]
            if step.get("fn") in _inplace():
                continue
            key = (ex.objcfg[step["obj"]][0].split(".")[-1], step["meth"]) if "obj" in step else (None, step.get("fn"))
            now = digest(ex.values.get(i), TIMING_IDX.get(key, ()))
            if now != rec["digest"]:
                name = step.get("fn") or f"{ex.objcfg[step['obj']][0]}.{step['meth']}"
                viol.append(V("result_mutated_later", i,
                              f"the value {name} returned at step {i} was modified by a later call of the run"))

    def ref_requests(self, ex):
        out = []
        for i, rec in enumerate(ex.recs):
            if rec["k"] != "sweep" or not rec.get("then"):
                continue
            sw = self.trace["steps"][i]
            new_step = {"k": "new", "obj": sw["call"]["obj"], "cls": sw["cls"], "cfg": sw.get("cfg", {})}
            for tj, then in enumerate(sw["then"]):
                obs = []
                for ob in rec["then"]:
                    if ob["j"] != tj:
                        continue
                    first = dict(sw["call"], fault={"line": ob["k"]})
                    obs.append(dict(ob, explicit=[new_step, first, then]))
                    self.cnt["after_fault_calls"] += 1
                req = {"step": {k: v for k, v in then.items() if k in ("k", "obj", "meth", "args", "kwargs")},
                       "rng_state": ex.sweep_states[i], "cls": sw["cls"], "cfg": sw.get("cfg", {}), "compare": obs}
                out.append((i, req))
        for i in self.need:
            step = self.trace["steps"][i]
            src = self.trace["steps"][step["of"]] if step["k"] in ("repeat", "reissue") else step
            req = ref_request(ex, i, src, ex.states)
            req["step"]["k"] = "call" if "obj" in src else "fn"
            out.append((i, req))
        return out

    def stats(self, ex):
        out = dict(self.cnt)
        out["sweep_sub"] = sum(r.get("n_sub", 0) for r in ex.recs if r["k"] == "sweep")
        out["sweep_fired"] = sum(r.get("n_fired", 0) for r in ex.recs if r["k"] == "sweep")
        return out


def _inplace():
    from ..world import INPLACE_KERNELS
    return INPLACE_KERNELS


def interpreter_sample(jobs, tier):
    """Jobs executed once more in two fresh interpreters that differ only in PYTHONHASHSEED: two
    3-call histories per solver configuration and a slice of the random histories (first world)."""
    w0 = jobs[0]["trace"]["world"] if jobs else "pkg"
    out = []
    for j in jobs:
        t = j["trace"]
        if t["world"] != w0:
            continue
        if t.get("mode") == "exhaustive" and tuple(t.get("seq") or ()) in ((0, 1, 2), (2, 3, 1)):
            out.append(j)
    rnd = [j for j in jobs if j["trace"].get("mode") == "random" and j["trace"]["world"] == w0]
    out += rnd[: (40 if tier == "quick" else 400)]
    # budget-limited solves of a larger problem per configuration (an unconverged iterate shows
    # every bit of what the random sketches were) and one call of every catalogue function
    big = PS(9, 6, [1.0, 0.8, 0.6, 0.45, 0.3, 0.2], 77)
    for ci, (cfgname, cls_, cfg_, meth_, pool_) in enumerate(CONFIGS):
        cfg2 = dict(cfg_)
        if "max_iter" in cfg2:
            cfg2["max_iter"] = 3
        if cfg2.get("preconditioner_rank"):
            cfg2["preconditioner_rank"] = 3
        if cfgname.startswith("gmres"):
            args = [SQ(6, 78), G(6, 1, 79)]
        elif cfgname.startswith("deep"):
            args = list(pool_[2])
        else:
            args = [big]
        seed = 9100000 + ci
        out.append({"seed": seed, "trace": {"prop": PROP, "seed": seed, "world": w0, "mode": "xinterp", "cfgname": cfgname,
                                            "seq": ["big"], "steps": [{"k": "rng", "op": "seed", "v": 5},
                                                                       {"k": "new", "obj": "s0", "cls": cls_, "cfg": cfg2},
                                                                       {"k": "call", "obj": "s0", "meth": meth_, "args": args,
                                                                        "client": 0, "cfgname": cfgname}]}})
    R = sub_rng(9200000, "xinterp")
    steps = [{"k": "rng", "op": "seed", "v": 6}]
    for ci, (name, gen, _w) in enumerate(CATALOGUE):
        args, kwargs = gen(R)
        st = {"k": "fn", "fn": name, "args": args, "client": 0}
        if kwargs:
            st["kwargs"] = kwargs
        steps.append(st)
        if len(steps) >= 12 or ci == len(CATALOGUE) - 1:
            seed = 9200000 + ci
            out.append({"seed": seed, "trace": {"prop": PROP, "seed": seed, "world": w0, "mode": "xinterp",
                                                "cfgname": "catalogue", "seq": [ci], "steps": steps}})
            steps = [{"k": "rng", "op": "seed", "v": 6}]
    return out


def cross_check(results):
    """Oracle 6 (import identity): the same trace must give the same per-step digests in
    every import world.  Returns [(result, violation)]."""
    by_seed = {}
    for res in results:
        by_seed.setdefault(res["seed"], []).append(res)
    out = []
    for seed, rs in by_seed.items():
        if len(rs) < 2:
            continue
        ref = rs[0]
        for other in rs[1:]:
            tsteps = other["job"]["trace"]["steps"]
            for i, (a, b) in enumerate(zip(ref["steps"], other["steps"])):
                if tsteps[i].get("fault"):
                    continue   # the executed lines legitimately differ between import styles
                if a.get("rng_before") != b.get("rng_before"):
                    # an earlier crash fired at a different point of the two import styles and
                    # consumed a different amount of the shared stream: the inputs of this
                    # step differ, so its outputs may (each world is still held to its own
                    # pristine evaluation by the refinement oracle)
                    continue
                if (a.get("ok"), a.get("exc"), a.get("digest")) != (b.get("ok"), b.get("exc"), b.get("digest")):
                    st = other["job"]["trace"]["steps"][i]
                    out.append((other, {"oracle": "import_identity", "step": i, "prop": PROP,
                                        "detail": f"step {i} ({st.get('fn') or st.get('meth')}) differs between import "
                                                  f"worlds {ref['world']} and {other['world']}: "
                                                  f"{a.get('ok')}/{a.get('exc')} vs {b.get('ok')}/{b.get('exc')}",
                                        "cls": [PROP, "import_identity", st.get("k"), "none",
                                                violation_target(other["job"]["trace"], {"step": i, "oracle": "import_identity"})],
                                        "other_world": ref["world"]}))
                    break
    return out


# ------------------------------------------------------------------ triage / evidence

def finding_tags(trace, v):
    idx = v.get("step", -1)
    st = trace["steps"][idx] if 0 <= idx < len(trace["steps"]) else {}
    if st.get("k") in ("repeat", "reissue"):
        st = trace["steps"][st["of"]]
    tags = {"oracle": v["oracle"]}
    if st.get("k") == "sweep":
        tags["cls"] = st["cls"].split(".")[-1]
        tags["meth"] = st["call"].get("meth")
        return tags
    if "obj" in st:
        for s in trace["steps"]:
            if s["k"] == "new" and s["obj"] == st["obj"]:
                tags["cls"] = s["cls"].split(".")[-1]
        tags["meth"] = st.get("meth")
    if "fn" in st:
        tags["fn"] = st["fn"]
    if (st.get("tags") or {}).get("offtype"):
        tags["offtype"] = st["tags"]["offtype"]
    return tags


def violation_target(trace, v):
    t = finding_tags(trace, v)
    return t.get("cls") or t.get("fn") or ""


def signature(trace, result):
    if trace.get("mode") in ("exhaustive", "recovery", "buffer", "offtype", "xinterp"):
        return f"{trace['mode']}:{trace['cfgname']}:{trace['seq']}:{trace['world']}"
    sig = []
    for s in trace["steps"]:
        k = s["k"]
        if k == "call":
            from ..gens import shape_of
            sig.append((k, s["obj"], s.get("cfgname"), str(shape_of(s["args"][0])),
                        "+".join(sorted((s.get("fault") or {}))), bool(s.get("clock"))))
        elif k == "fn":
            sig.append((k, s["fn"], "+".join(sorted((s.get("fault") or {})))))
        elif k == "rng":
            sig.append((k, s["op"]))
        else:
            sig.append((k,))
    return trace["world"] + repr(sig)


def nontrivial(trace, result):
    if trace.get("mode") == "offtype":
        return True
    if trace.get("mode") == "recovery":
        return bool((result.get("stats") or {}).get("after_fault_calls"))
    per_obj = {}
    last_new = {}
    event_between = False
    for s in trace["steps"]:
        if s["k"] == "new":
            last_new[s["obj"]] = True
        elif s["k"] in ("rng", "clock"):
            if any(last_new.values()):
                event_between = True
        elif s["k"] == "call":
            per_obj[s["obj"]] = per_obj.get(s["obj"], 0) + 1
            last_new[s["obj"]] = False
        elif s["k"] == "repeat":
            return True
    st = result.get("stats", {})
    return (any(c >= 2 for c in per_obj.values()) or event_between
            or bool(st.get("after_fault_calls")))


def evidence_extra(jobs, results):
    exh = [r for r in results if r["job"]["trace"].get("mode") == "exhaustive"]
    per_cfg = {}
    for r in exh:
        t = r["job"]["trace"]
        per_cfg[t["cfgname"]] = per_cfg.get(t["cfgname"], 0) + 1
    n_exh_jobs = sum(1 for j in jobs if j["trace"].get("mode") == "exhaustive")
    fns = set()
    for r in results:
        for s in r["job"]["trace"]["steps"]:
            if s["k"] == "fn":
                fns.add(s["fn"])
    return {
        "exhaustive_subspace": {
            "what": "every sequence of 3 calls (hence every sequence of up to 3) drawn from a pool of 4 problems "
                    "(sizes 1, 2-3, 5-6, one sparse/rank-deficient/wrong-orientation), per solver class and configuration",
            "configurations": len(CONFIGS), "sequences_per_configuration": 64,
            "executed": len(exh), "generated": n_exh_jobs, "exhaustive": len(exh) == n_exh_jobs,
            "per_configuration": per_cfg},
        "public_functions_exercised": sorted(fns),
        "catalogue_size": len({c[0] for c in CATALOGUE}),
    }


def simplify(trace):
    out = []
    for si, s in enumerate(trace["steps"]):
        if (s.get("fault") or {}).get("line"):
            k = s["fault"]["line"]
            for kk in sorted({1, k // 2, k - 1}):
                if 1 <= kk < k:
                    t = json.loads(json.dumps(trace))
                    t["steps"][si]["fault"]["line"] = kk
                    out.append(t)
    return out
