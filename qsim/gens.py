"""Spec -> array expansion (DESIGN 2.3).

Inputs are never random objects but small JSON specs; each spec carries its own seed
and is expanded with a private Generator(PCG64(seed)) - never the global NumPy stream,
which belongs to the system under test.  The same spec always yields a bit-identical,
freshly allocated, C-contiguous array (so the world under test and the pristine world
see identically constructed operands, DESIGN 1/S7).
"""

import numpy as np
import quaternion  # noqa: F401

from . import qalg


def _rng(seed):
    return np.random.Generator(np.random.PCG64(int(seed)))


def _gauss(rng, m, n):
    return qalg.from_comps(rng.standard_normal((m, n, 4)))


def _unitary(rng, n):
    if n == 0:
        return qalg.zeros(0, 0)
    for _ in range(20):
        G = _gauss(rng, n, n)
        if qalg.cond(G) < 1e6:
            return qalg.polar_unitary(G)
    raise RuntimeError("could not draw a well-conditioned Gaussian")


def _qscalar(c):
    if isinstance(c, (int, float)):
        return np.quaternion(float(c), 0, 0, 0)
    return np.quaternion(*[float(v) for v in c])


def build(spec):
    """Expand one spec to a Python value (quaternion ndarray for matrix specs)."""
    if not isinstance(spec, dict) or "gen" not in spec:
        return spec  # literal
    g = spec["gen"]
    if g == "val":
        return spec["v"]
    if g == "gauss":
        A = _gauss(_rng(spec["seed"]), spec["m"], spec["n"])
    elif g == "int":
        rng = _rng(spec["seed"])
        lo, hi = spec.get("lo", -3), spec.get("hi", 3)
        A = qalg.from_comps(rng.integers(lo, hi + 1, size=(spec["m"], spec["n"], 4)).astype(float))
    elif g == "psvd":
        m, n = spec["m"], spec["n"]
        rng = _rng(spec["seed"])
        U = _unitary(rng, m)
        V = _unitary(rng, n)
        A = qalg.mmm(U, qalg.diag(spec["sigma"], m, n), qalg.herm(V))
    elif g == "herm":
        n = spec["n"]
        rng = _rng(spec["seed"])
        U = _unitary(rng, n)
        A = qalg.mmm(U, qalg.diag(spec["lam"], n, n), qalg.herm(U))
        if not spec.get("raw"):
            A = (A + qalg.herm(A)) * 0.5  # exactly Hermitian ("raw": Hermitian up to rounding only)
    elif g == "herm_vec":
        # Hermitian with a prescribed "natural" real vector (all ones / alternating signs / ramp)
        # as eigenvector of the NON-dominant eigenvalue lam[k]; the other eigenvectors are random
        n, k = spec["n"], spec["k"]
        rng = _rng(spec["seed"])
        v = {"ones": np.ones(n), "alt": np.array([(-1.0) ** i for i in range(n)]),
             "ramp": np.arange(1.0, n + 1.0)}[spec["vec"]]
        v = v / np.linalg.norm(v)
        u = v.copy()
        u[0] -= 1.0
        Hm = np.eye(n) if np.linalg.norm(u) < 1e-14 else np.eye(n) - 2.0 * np.outer(u, u) / float(u @ u)
        F = np.zeros((n, n, 4))
        F[..., 0] = Hm
        W = qalg.eye(n)
        if n > 1:
            W[1:, 1:] = _unitary(rng, n - 1)
        Q = qalg.mm(qalg.from_comps(F), W)
        lam = list(spec["lam"])
        order = [lam[k]] + [lam[j] for j in range(n) if j != k]
        A = qalg.mmm(Q, qalg.diag(order, n, n), qalg.herm(Q))
        A = (A + qalg.herm(A)) * 0.5
    elif g == "unitary":
        A = _unitary(_rng(spec["seed"]), spec["n"])
    elif g == "cI":
        n = spec["n"]
        A = qalg.eye(n) * _qscalar(spec["c"])
    elif g == "I_lowrank":
        n, r = spec["n"], spec["r"]
        rng = _rng(spec["seed"])
        X = _gauss(rng, n, r)
        Y = _gauss(rng, n, r)
        A = qalg.eye(n) + qalg.mm(X, qalg.herm(Y)) * float(spec.get("eps", 0.3))
    elif g == "tri":
        n = spec["n"]
        rng = _rng(spec["seed"])
        F = rng.standard_normal((n, n, 4)) * float(spec.get("off", 0.3))
        for i in range(n):
            d = rng.standard_normal(4)
            d = d / np.linalg.norm(d) * rng.uniform(0.5, 2.0)
            F[i, i] = d
            for j in range(n):
                if (j < i) if spec.get("upper", True) else (j > i):
                    F[i, j] = 0.0
        A = qalg.from_comps(F)
    elif g == "diagq":
        vals = spec["vals"]
        n = len(vals)
        F = np.zeros((n, n, 4))
        for i, v in enumerate(vals):
            q = _qscalar(v)
            F[i, i] = [q.w, q.x, q.y, q.z]
        A = qalg.from_comps(F)
    elif g == "hess":
        n = spec["n"]
        F = _rng(spec["seed"]).standard_normal((n, n, 4))
        for i in range(n):
            for j in range(n):
                if i > j + 1:
                    F[i, j] = 0.0
        A = qalg.from_comps(F)
    elif g == "tridiag_herm":
        n = spec["n"]
        rng = _rng(spec["seed"])
        F = np.zeros((n, n, 4))
        for i in range(n):
            F[i, i, 0] = rng.standard_normal()
            if i + 1 < n:
                q = rng.standard_normal(4)
                F[i, i + 1] = q
                F[i + 1, i] = q * np.array([1.0, -1.0, -1.0, -1.0])
        A = qalg.from_comps(F)
    elif g == "maskq":
        # Gaussian entries confined to the components listed in mask (w, x, y, z)
        F = _rng(spec["seed"]).standard_normal((spec["m"], spec["n"], 4))
        for c, keep in enumerate(spec["mask"]):
            if not keep:
                F[..., c] = 0.0
        A = qalg.from_comps(F)
    elif g == "imagq":
        F = _rng(spec["seed"]).standard_normal((spec["m"], spec["n"], 4))
        F[..., 0] = 0.0
        if spec.get("tiny00"):
            F[0, 0] *= float(spec["tiny00"])
        A = qalg.from_comps(F)
    elif g == "realq":
        F = np.zeros((spec["m"], spec["n"], 4))
        F[..., 0] = _rng(spec["seed"]).standard_normal((spec["m"], spec["n"]))
        A = qalg.from_comps(F)
    elif g == "perm":
        # generalised permutation matrix: A[i, p[i]] = unit quaternion phases[i]
        pidx = spec["p"]
        n = len(pidx)
        ph = spec.get("phases") or [[1.0, 0, 0, 0]] * n
        F = np.zeros((n, n, 4))
        for i, j in enumerate(pidx):
            F[i, j] = [float(v) for v in ph[i]]
        A = qalg.from_comps(F)
    elif g == "blockdiag":
        blocks = [build(b) for b in spec["blocks"]]
        m = sum(b.shape[0] for b in blocks)
        n = sum(b.shape[1] for b in blocks)
        F = np.zeros((m, n, 4))
        i = j = 0
        for b in blocks:
            F[i:i + b.shape[0], j:j + b.shape[1]] = qalg.comps(b)
            i += b.shape[0]
            j += b.shape[1]
        A = qalg.from_comps(F)
    elif g == "entry":
        F = np.zeros((spec["m"], spec["n"], 4))
        F[spec["i"], spec["j"]] = [float(v) for v in spec["q"]]
        A = qalg.from_comps(F)
    elif g == "zeros":
        A = qalg.zeros(spec["m"], spec["n"])
    elif g == "unitvec":
        F = np.zeros((spec["n"], 1, 4))
        F[spec["k"], 0, 0] = 1.0
        A = qalg.from_comps(F)
    elif g == "eigvec":
        M = build(spec["of"])
        n = M.shape[0]
        w, Z = np.linalg.eig(qalg.chi(M))
        order = np.argsort(-np.abs(w), kind="stable")
        z = Z[:, order[spec.get("k", 0) % len(order)]]
        x1 = z[:n]
        x2 = -np.conj(z[n:])
        F = np.stack([x1.real, x1.imag, x2.real, x2.imag], axis=-1).reshape(n, 1, 4)
        F = F / np.sqrt(np.sum(F ** 2))
        A = qalg.from_comps(F)
    elif g == "mul":
        A = qalg.mm(build(spec["A"]), build(spec["x"]))
    elif g == "set00":
        # the leading entry replaced by a (tiny or zero) real value: keeps a Hermitian matrix
        # Hermitian and makes elimination without pivoting unstable
        A = np.array(build(spec["of"]), copy=True)
        A[0, 0] = np.quaternion(float(spec["v"]), 0, 0, 0)
    elif g == "scale":
        A = build(spec["of"]) * float(spec["c"])
    elif g == "add":
        A = build(spec["a"]) + build(spec["b"])
    elif g == "hermpart":
        M = build(spec["of"])
        A = (M + qalg.herm(M)) * 0.5
    elif g == "T":
        A = qalg.herm(build(spec["of"]))
    elif g == "real":
        return np.ascontiguousarray(_rng(spec["seed"]).standard_normal((spec["m"], spec["n"])))
    elif g == "realint":
        return np.ascontiguousarray((_rng(spec["seed"]).standard_normal((spec["m"], spec["n"])) * 3).astype(np.int64))
    elif g == "complex":
        rng = _rng(spec["seed"])
        return np.ascontiguousarray(rng.standard_normal((spec["m"], spec["n"]))
                                    + 1j * rng.standard_normal((spec["m"], spec["n"])))
    elif g == "realnd":
        if "lo" in spec:     # uniform in [lo, hi] (image-like data) instead of Gaussian
            return np.ascontiguousarray(_rng(spec["seed"]).uniform(spec["lo"], spec["hi"], tuple(spec["shape"])))
        return np.ascontiguousarray(_rng(spec["seed"]).standard_normal(tuple(spec["shape"])))
    elif g == "qnd":
        shp = tuple(spec["shape"])
        return qalg.from_comps(_rng(spec["seed"]).standard_normal(shp + (4,)))
    elif g == "ravel":
        return np.ascontiguousarray(build(spec["of"]).ravel())
    elif g == "list":
        return [build(v) for v in spec["items"]]
    elif g == "tuple":
        return tuple(build(v) for v in spec["items"])
    elif g == "inf":
        return float("inf")
    elif g == "realnd_const":
        shp = tuple(spec["shape"])
        return np.eye(shp[0], shp[1]) * float(spec["c"]) if spec.get("eye") else np.full(shp, float(spec["c"]))
    elif g == "qscalar":
        return np.quaternion(*[float(v) for v in spec["q"]])
    elif g == "cval":
        return complex(float(spec["re"]), float(spec["im"]))
    elif g == "csr":
        # a scipy CSR matrix (one component of a sparse quaternion matrix as the caller holds it);
        # "explicit_zeros": every entry stored, zeros included (a legal, non-canonical layout)
        from scipy import sparse
        M = np.asarray(build(spec["of"]), dtype=float)
        if spec.get("explicit_zeros"):
            m_, n_ = M.shape
            return sparse.csr_matrix((M.ravel().copy(), np.tile(np.arange(n_), m_), np.arange(0, m_ * n_ + 1, n_)),
                                     shape=(m_, n_))
        return sparse.csr_matrix(M)
    elif g == "scale_val":
        return float(spec["v"])
    else:
        raise ValueError(f"unknown generator {g!r}")
    return np.ascontiguousarray(A)


def is_sparse_spec(spec):
    return isinstance(spec, dict) and spec.get("storage") == "sparse"


def shape_of(spec):
    """Cheap shape of a matrix spec without building it (used for trace statistics)."""
    if not isinstance(spec, dict):
        return None
    g = spec.get("gen")
    if g in ("gauss", "int", "psvd", "zeros", "real", "realint", "complex", "entry", "realq", "imagq", "maskq"):
        return (spec["m"], spec["n"])
    if g in ("herm", "herm_vec", "unitary", "cI", "I_lowrank", "tri", "hess", "tridiag_herm"):
        return (spec["n"], spec["n"])
    if g == "diagq":
        return (len(spec["vals"]), len(spec["vals"]))
    if g == "perm":
        return (len(spec["p"]), len(spec["p"]))
    if g in ("unitvec",):
        return (spec["n"], 1)
    if g == "eigvec":
        s = shape_of(spec["of"])
        return (s[0], 1) if s else None
    if g == "mul":
        a, x = shape_of(spec["A"]), shape_of(spec["x"])
        return (a[0], x[1]) if a and x else None
    if g in ("scale", "hermpart", "set00"):
        return shape_of(spec["of"])
    if g == "T":
        s = shape_of(spec["of"])
        return (s[1], s[0]) if s else None
    if g == "add":
        return shape_of(spec["a"])
    if g in ("realnd", "qnd"):
        return tuple(spec["shape"])
    if g == "blockdiag":
        shp = [shape_of(b) for b in spec["blocks"]]
        if all(shp):
            return (sum(x[0] for x in shp), sum(x[1] for x in shp))
    return None
