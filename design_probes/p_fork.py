import os, time, pickle, hashlib
os.environ["OMP_NUM_THREADS"]="1"; os.environ["OPENBLAS_NUM_THREADS"]="1"
import numpy as np, quaternion, quatica
from quatica.solver import QGMRESSolver
rng=np.random.default_rng(0)
A=quaternion.as_quat_array(rng.standard_normal((5,5,4))); b=quaternion.as_quat_array(rng.standard_normal((5,1,4)))
def one():
    r,w=os.pipe()
    pid=os.fork()
    if pid==0:
        os.close(r)
        x,info=QGMRESSolver(tol=1e-10).solve(A,b)
        os.write(w,hashlib.sha256(x.tobytes()).digest()); os._exit(0)
    os.close(w); d=os.read(r,64); os.close(r); os.waitpid(pid,0); return d
t=time.time(); ds={one() for _ in range(200)}; dt=time.time()-t
print('200 forks',dt,'s; distinct digests',len(ds))
t=time.time()
for _ in range(200): QGMRESSolver(tol=1e-10).solve(A,b)
print('200 inproc',time.time()-t)
x,info=QGMRESSolver(tol=1e-10).solve(A,b)
print(hashlib.sha256(x.tobytes()).digest() in ds)
