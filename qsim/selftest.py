"""Determinism self-test (DESIGN 2.5): the same seeds must give byte-identical history
digests (a) twice in this interpreter at two worker counts and (b) in a fresh
interpreter started with another PYTHONHASHSEED."""

import json
import os
import subprocess
import sys
import time

from . import VERIF_ROOT, engine


def digests(pid, nseeds, nworkers, base_seed=7):
    pm = engine.prop_module(pid)
    jobs, worlds = pm.gen_jobs(base_seed, "quick", nseeds) if pid != "C20" else pm.gen_jobs(base_seed, "quick")
    jobs = jobs[:: max(1, len(jobs) // nseeds)][:nseeds]
    pools = engine.Pools(worlds, nworkers=nworkers)
    out = {}
    try:
        futs = [(j, pools.submit(j)) for j in jobs]
        for j, f in futs:
            r = f.result(timeout=engine.RUN_TIMEOUT_S * 4)
            key = f"{j['seed']}:{j['trace']['world']}:{engine.trace_digest(j['trace'])}"
            out[key] = r.get("hist") or ("HARNESS:" + str(r.get("harness_error"))[:80])
    finally:
        pools.close()
    return out


def main(a):
    props = [p.strip().upper() for p in a.props.split(",") if p.strip()]
    if os.environ.get("QSIM_SELFTEST_CHILD"):
        res = {p: digests(p, a.seeds, 4) for p in props}
        print("SELFTEST-CHILD " + json.dumps(res, sort_keys=True))
        return 0
    t0 = time.time()
    bad = 0
    total = 0
    first = {}
    for p in props:
        d16 = digests(p, a.seeds, 16)
        d2 = digests(p, a.seeds, 2)
        first[p] = d16
        diff = [k for k in d16 if d16[k] != d2.get(k)]
        herr = [k for k, v in d16.items() if str(v).startswith("HARNESS")]
        total += len(d16)
        bad += len(diff) + len(herr)
        print(f"[selftest] {p}: {len(d16)} runs, 16 workers vs 2 workers: {len(diff)} differing digests, "
              f"{len(herr)} harness errors")
    env = dict(os.environ, PYTHONHASHSEED="4242", QSIM_SELFTEST_CHILD="1")
    pr = subprocess.run([sys.executable, "-B", "-m", "qsim", "selftest", "--props", ",".join(props),
                         "--seeds", str(a.seeds)], cwd=VERIF_ROOT, env=env, capture_output=True, text=True)
    child = None
    for line in pr.stdout.splitlines():
        if line.startswith("SELFTEST-CHILD "):
            child = json.loads(line[len("SELFTEST-CHILD "):])
    if child is None:
        print("[selftest] fresh-interpreter run produced no result:\n" + pr.stderr[-2000:])
        return 2
    for p in props:
        diff = [k for k in first[p] if first[p][k] != child.get(p, {}).get(k)]
        bad += len(diff)
        print(f"[selftest] {p}: fresh interpreter with PYTHONHASHSEED=4242, 4 workers: {len(diff)} differing digests")
    print(f"[selftest] {total} runs x 3 executions in {time.time() - t0:.1f}s: "
          + ("DETERMINISTIC" if bad == 0 else f"{bad} MISMATCHES"))
    os.makedirs(os.path.join(VERIF_ROOT, "evidence"), exist_ok=True)
    with open(os.path.join(VERIF_ROOT, "evidence", "selftest_determinism.json"), "w") as f:
        json.dump({"props": props, "runs_per_prop": a.seeds, "executions": ["16 workers", "2 workers",
                                                                            "fresh interpreter PYTHONHASHSEED=4242, 4 workers"],
                   "mismatches": bad, "wall_s": round(time.time() - t0, 1)}, f, indent=1)
    return 0 if bad == 0 else 2
