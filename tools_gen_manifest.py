#!/usr/bin/env python3
"""Regenerates /verif/MANIFEST.json from the table below (run with any python3)."""
import json, os
ROOT = os.path.dirname(os.path.abspath(__file__))
PY = "/venv/bin/python -B -m qsim"
CLAIMED = {
 "C04": ("fault_enumeration",
         "Seeded simulated runs of Q-GMRES over system families x every iteration cap x preconditioner x storage x ulp-jitter, "
         "plus crash-point enumeration: a transient failure injected at every executed library line of small preconditioned solves "
         "(exhaustive per swept solve) and at sampled lines of larger ones, plus forced LU failure, forced zero diagonal, clock scripts and client buffer reuse; "
         "directed modes for absolute thresholds (near-identity systems at the ends of the scale range) and loss of orthogonality (n >= 8, cond 1e3, tol 1e-12). Oracles: truthful info.residual, "
         "sound converged flag, monotone history, per-cycle Krylov optimality against an independent Arnoldi/least-squares, bounded "
         "liveness (solved within n cycles once faults stop), same solution with/without preconditioner and under scaling. Sampling plus "
         "small exhaustive sub-spaces: evidence, not proof.",
         "3 C04", "crash-point enumeration + seeded fault/schedule search (deterministic simulation)"),
 "C14": ("exploration",
         "Histories of 1-3 simulated clients sharing solver objects, the global RNG and the clock, in 2 (quick) / 4 (thorough) import worlds, with "
         "world events and crashes; every call is compared bit-for-bit with a one-shot evaluation in a freshly forked pristine world (refinement), "
         "arguments hashed before/after, repeats, cross-world digests (also for off-type requests: a SparseQuaternionMatrix where a dense matrix is documented), "
         "and a sample re-executed in two fresh interpreters that differ only in PYTHONHASHSEED (interpreter identity). All sequences of <=3 calls from a pool of 4 problems per solver configuration "
         "are enumerated exhaustively; longer histories are seeded search.",
         "3 C14", "deterministic simulation: seeded history search + exhaustive <=3-call histories, refinement against a pristine-world model"),
}
EXTRA = {}
try:
    EXTRA = json.load(open(os.path.join(ROOT, "manifest_extra.json")))
except FileNotFoundError:
    pass
CLAIMED.update({k: tuple(v) for k, v in EXTRA.get("claimed", {}).items()})
NA = {
 "C01": "pure function of the operands and their storage format; no schedule, clock, RNG, handler or shared state to simulate (DESIGN 4)",
 "C02": "pure, stateless index arithmetic (embeddings); no seam (DESIGN 4)",
 "C03": "deterministic recurrence of pure products; its only seam (a clock read) cannot influence X; clock/reuse/argument clauses are exercised under C14 (DESIGN 4)",
 "C05": "pure function; LAPACK's basis choice in degenerate subspaces is fixed for a build - substituting another SVD would test a different library (DESIGN 4)",
 "C06": "pure function of the input matrix (DESIGN 4)",
 "C07": "pure function; the pivot sequence is selected by the data, not by a schedule (DESIGN 4)",
 "C08": "pure function (DESIGN 4)",
 "C09": "pure function (DESIGN 4)",
 "C10": "deterministic iterations; the only RNG is a private default_rng(0); the budget is an argument (DESIGN 4)",
 "C11": "pure functions (DESIGN 4)",
 "C15": "pure functions (DESIGN 4)",
 "C16": "pure on copies, as the property states them; the aliasing risk to callers is C14's (DESIGN 4)",
 "C17": "pure FFT / linear algebra; no file, clock or generator on the anchored paths (DESIGN 4)",
 "C18": "pure; the one stochastic clause is a one-draw statistic with an injectable generator, not a schedule (DESIGN 4)",
}
PENDING = {p: "claimed in DESIGN.md; its check is still under construction in this tree" for p in ("C12", "C13", "C19", "C20") if p not in CLAIMED}
checks = []
for pid in sorted(CLAIMED):
    cat, text, ref, tech = CLAIMED[pid]
    checks.append({
        "property_id": pid,
        "quick_cmd": f"{PY} check {pid} --tier quick",
        "thorough_cmd": f"{PY} check {pid} --tier thorough",
        "evidence_file": f"/verif/evidence/{pid}.json",
        "replay_cmd_template": f"{PY} replay {{path}}",
        "engine": "qsim",
        "level_claimed": {"category": cat, "text": text, "design_ref": "DESIGN.md section " + ref},
        "level_note": "Trusted: NumPy/LAPACK/SciPy/numpy-quaternion of this image with one BLAS thread; the harness's own quaternion arithmetic "
                      "(qsim/qalg.py, self-tested at start-up); CPython 3.12 sys.monitoring for crash points (Python line granularity). "
                      "Seeded sampling outside the stated exhaustive sub-spaces.",
        "technique": tech,
    })
m = {
 "version": 1,
 "setup_cmd": "/venv/bin/python -B -c \"import numpy, scipy, quaternion, sys; sys.path.insert(0, '/verif'); import qsim.qalg as q; q.self_test(); print('qsim setup ok')\"",
 "hooks": {"guard": "QUATICA_VERIF", "enable": "no source hook is needed: every seam is reached through module attributes the library looks up at call time or through sys.monitoring (DESIGN 2.2)",
           "baseline_off_cmd": "cd /repo && /venv/bin/python -m pytest -ra -q -p no:cacheprovider --timeout=900 --continue-on-collection-errors",
           "source_commits": [], "add_only": True},
 "engines": [{"name": "qsim", "path": "/verif/qsim", "serves_properties": sorted(CLAIMED),
              "kind_free_text": "deterministic simulator: seeded scheduler of client calls, world events and faults over forked import worlds; SimClock, RNG recorder, sys.monitoring crash points; pristine-world reference evaluators; ddmin shrinker; fresh-interpreter replay"}],
 "checks": checks,
 "not_applicable": [{"property_id": k, "reason": v} for k, v in sorted({**NA, **PENDING}.items())],
 "notes": "Genuine defects found by these checks were repaired by 'fix:' commits in /repo and are listed as 'fixed' in /verif/known_findings.json; open findings are listed there too. See DESIGN.md.",
}
json.dump(m, open(os.path.join(ROOT, "MANIFEST.json"), "w"), indent=1)
print("wrote MANIFEST.json with", len(checks), "checks")
