"""C12 - randomized and pass-efficient Q-SVD: orthonormal factors, interlacing values,
Eckart-Young bounds, exact on low rank - for every state of the shared global RNG.

The schedule searched is the RNG stream: which seed, how far other clients have consumed
it when the call happens, whether someone re-seeded in between.  DESIGN section 3, C12.
"""

import json
import math

from .common import rand_clock, BaseHooks, V, finite, is_qmat, np, qalg, ref_request, round_sig, sub_rng

PROP = "C12"
CLOCKS = [[0.0], [1e-3, -3600.0, 1e6], [1e6], [-1.0], [5e-4, 0.0, 0.0, 7200.0], [1e-9]]
WORLDS_QUICK = ("pkg", "flat")
WORLDS_THOROUGH = ("pkg", "flat", "pkg_then_flat", "flat_then_pkg")
SPECTRA = ("simple", "clustered", "repeated", "lowrank", "rank_eq_R", "geometric", "zero", "simple")

RULE = ("one evaluation = one seeded run: 1-3 simulated clients share the global RNG; one seeds it, foreign clients "
        "draw or re-seed, the SVD client calls rand_qsvd / pass_eff_qsvd (sometimes twice on the same A, sometimes "
        "followed by a repeat with the restored RNG state); distinct = distinct (routine, shape, spectrum family, "
        "rank, R, oversample, n_iter/n_passes, schedule events) signature; non-trivial = min(m,n) >= 2 and A != 0")


def regime_tags(sigma, Rk):
    """Regime predicates evaluated on the spec (known findings are keyed on them):
    rank_lt_R   - fewer than R singular values are numerically non-zero (> 1e-7 sigma_1)
    repeated_sv - two numerically non-zero singular values coincide to 1e-7 sigma_1."""
    smax = max(sigma) if sigma else 0.0
    nz = sorted((v for v in sigma if smax > 0 and v > 1e-7 * smax), reverse=True)
    rep = any(a - b <= 1e-7 * smax for a, b in zip(nz, nz[1:]))
    return {"rank_lt_R": len(nz) < Rk, "repeated_sv": rep, "numrank": len(nz)}


def gen_trace(seed, world, tier):
    R_ = sub_rng(seed, "C12")
    hi = 8 if tier == "quick" else 10
    m, n = R_.randint(1, hi), R_.randint(1, hi)
    midsize = R_.random() < 0.03
    if midsize:     # mid-size matrices, where the default oversampling (10) is not wider than the matrix
        m, n = R_.randint(14, 28), R_.randint(14, 28)
    k = min(m, n)
    fam = R_.choice(SPECTRA)
    Rk = R_.randint(1, k) if not midsize else R_.randint(1, 4)
    base = sorted((round_sig(R_.uniform(0.5, 3.0), 4) for _ in range(k)), reverse=True)
    rank = k
    if fam == "clustered" and k >= 2:
        base = [round_sig(base[0] * (1 - 1e-3 * i), 8) for i in range(k)]
    elif fam == "repeated" and k >= 2:
        j = R_.randint(0, k - 2)
        base[j + 1] = base[j]
    elif fam == "lowrank":
        rank = R_.randint(0, max(0, Rk - 1))
    elif fam == "rank_eq_R":
        rank = Rk
    elif fam == "geometric":
        q = R_.choice([0.5, 0.1, 0.01])
        base = [round_sig(2.0 * q ** i, 6) for i in range(k)]
    elif fam == "zero":
        rank = 0
    sigma = [v if i < rank else 0.0 for i, v in enumerate(base)]
    A = {"gen": "psvd", "m": m, "n": n, "sigma": sigma, "seed": R_.randrange(10 ** 6)}
    # structured special cases an implementation may have a fast path for: exactly Hermitian
    # (indefinite), exactly diagonal, exactly real input - same singular values, other structure
    struct = R_.choice(["none", "none", "none", "herm_indef", "diag", "realq"])
    if struct == "herm_indef" and m == n and rank == k and len(set(sigma)) == k:
        lam = [v * R_.choice([1, -1]) for v in sigma]
        if all(v > 0 for v in lam):
            lam[0] = -lam[0]
        A = {"gen": "herm", "n": n, "lam": lam, "seed": R_.randrange(10 ** 6)}
    elif struct == "diag" and m == n:
        vals = [[v * c for c in R_.choice([[1.0, 0, 0, 0], [0, 1.0, 0, 0], [0.6, 0, 0.8, 0], [-1.0, 0, 0, 0]])] for v in sigma]
        R_.shuffle(vals)
        A = {"gen": "diagq", "vals": vals}
    elif struct == "realq" and fam == "simple":
        A = {"gen": "realq", "m": m, "n": n, "seed": R_.randrange(10 ** 6)}
        sigma = None
    else:
        struct = "none"
    scale = R_.choice([0, 0, 0, 0, 0, -3, 3, -6, 6, -9, 9, -13, 13, R_.randint(-13, 13), R_.randint(-8, -1)])   # "for every quaternion matrix"
    if scale:
        A = {"gen": "scale", "of": A, "c": 10.0 ** scale}
    if R_.random() < 0.5:
        P = R_.randint(0, 10)
    else:   # bias towards sketches wider than the matrix
        P = R_.randint(max(0, k - Rk), max(0, k - Rk) + 5)
    routine = R_.choice(["rand", "pass"])
    if routine == "rand":
        fn, kw = "decomp.qsvd.rand_qsvd", {"oversample": P, "n_iter": R_.randint(0, 3)}
    else:
        fn, kw = "decomp.qsvd.pass_eff_qsvd", {"oversample": P, "n_passes": R_.randint(2, 5)}
    tags = {"routine": routine, "m": m, "n": n, "rank": rank, "R": Rk, "P": P, "family": fam,
            "wide_sketch": Rk + P > k, "zero": rank == 0, "scale": scale}
    tags["struct"] = struct
    if sigma is None:       # real Gaussian input: generic, distinct singular values, full rank
        tags.update({"rank_lt_R": False, "repeated_sv": False, "numrank": k, "rank": k})
    else:
        tags.update(regime_tags(sigma, Rk))
    steps = [{"k": "rng", "op": "seed", "v": R_.randrange(10 ** 6), "client": 0}]
    for _ in range(R_.randint(0, 2)):
        if R_.random() < 0.7:
            steps.append({"k": "rng", "op": "draw", "n": R_.randint(1, 300), "client": 1})
        else:
            steps.append({"k": "rng", "op": "seed", "v": R_.randrange(10 ** 6), "client": 1})
    if R_.random() < 0.06:
        # the matrix is handed over as a SparseQuaternionMatrix (answered by both routines since the
        # adjoint and the products dispatch on it): the same guarantees apply
        A = dict(A, storage="sparse")
        if R_.random() < 0.5:
            A["explicit_zeros"] = True
        tags = dict(tags, sparse=True)
    call = {"k": "fn", "fn": fn, "args": [A, Rk], "kwargs": kw, "client": 2, "tags": tags}
    if R_.random() < 0.1:
        call["clock"] = rand_clock(R_)   # stalled / jumping / coarse clock: must not matter
    steps.append(call)
    x2 = R_.random()
    if x2 < 0.25:
        steps.append({"k": "rng", "op": "draw", "n": R_.randint(1, 50), "client": 1})
        steps.append(dict(call))                      # same A again, stream has moved on
    elif x2 < 0.5 and (A.get("of") or A).get("gen") == "psvd":
        # the client keeps ONE buffer: a second matrix of the same shape (same spectrum, other
        # singular vectors) is written into it in place and decomposed with the same parameters
        def reseed(sp):
            if sp.get("gen") == "scale":
                return dict(sp, of=reseed(sp["of"]))
            return dict(sp, seed=sp["seed"] + 1)
        call["args"] = [dict(call["args"][0], buf="X")] + call["args"][1:]
        steps[-1] = call
        call2 = dict(call, args=[dict(reseed(A), buf="X")] + call["args"][1:])
        steps.append(call2)
    if R_.random() < 0.3:
        steps.append({"k": "repeat", "of": len(steps) - 1, "client": 0})
    elif R_.random() < 0.1:
        # fault: the k-th LAPACK-backed factorisation the routine performs fails (LinAlgError, what
        # gesdd reports when it does not converge).  Failing loudly is fine; answering is only fine
        # if the answer still has every property.
        steps.append(dict(call, fault={"linalg_fail": {"fn": R_.choice(["svd", "svd", "qr"]), "k": R_.choice([1, 1, 2, 3])}}))
    return {"prop": PROP, "seed": seed, "world": world, "mode": "run", "steps": steps}


def gen_jobs(base_seed, tier, budget=None):
    worlds = WORLDS_QUICK if tier == "quick" else WORLDS_THOROUGH
    n = budget if budget is not None else (3000 if tier == "quick" else 120000)
    jobs = []
    # the recorded traces of the open known findings (DESIGN 6.2) are part of every batch, so that each
    # listed finding is reproduced - and printed as KNOWN-FINDING - by every run, whatever the seed
    import json as _json
    import os as _os
    from .. import VERIF_ROOT as _VR
    for k_, fname in enumerate(("C12-rankdef.json", "C12-repeated.json", "C12-repeated-above_norm.json")):
        try:
            with open(_os.path.join(_VR, "findings", fname)) as f_:
                doc = _json.load(f_)
        except OSError:
            continue
        tr = dict(doc["trace"] if "trace" in doc else doc)
        if tr.get("world") not in worlds:
            tr["world"] = worlds[0]
        tr.pop("compare_world", None)
        jobs.append({"seed": int(tr.get("seed") or 0), "trace": tr})
    for i in range(n):
        seed = base_seed * 10 ** 6 + i
        jobs.append({"seed": seed, "trace": gen_trace(seed, worlds[i % len(worlds)], tier)})
    return jobs, worlds


class Hooks(BaseHooks):
    def __init__(self, trace):
        super().__init__(trace)
        self.cnt = {"calls": 0, "repeats": 0}
        self.meta = {}
        self.need = []

    def after_step(self, ex, i, step, rec, viol):
        k = rec["k"]
        if k == "repeat":
            self.cnt["repeats"] += 1
            orig = ex.recs[step["of"]]
            if (orig["ok"], orig.get("digest")) != (rec["ok"], rec.get("digest")):
                viol.append(V("repeat", i, "same arguments and same global RNG state gave a different result"))
            return
        if k != "fn":
            return
        faulted = bool((step.get("fault") or {}).get("linalg_fail"))
        if not faulted:
            self.need.append(i)
        t = step["tags"]
        self.cnt["calls"] += 1
        reg = "regime_" + ("+".join(k for k in ("rank_lt_R", "wide_sketch", "repeated_sv") if t.get(k)) or "regular")
        self.cnt[reg] = self.cnt.get(reg, 0) + 1
        if rec["args_changed"]:
            viol.append(V("args_mutated", i, f"{step['fn']} changed its argument in place"))
        m, n, Rk = t["m"], t["n"], t["R"]
        if rec["ok"] == "exc" and faulted:
            self.cnt["raised_under_fault"] = self.cnt.get("raised_under_fault", 0) + 1
            return      # a loud failure under an injected LAPACK failure is allowed
        if faulted:
            self.cnt["returned_under_fault"] = self.cnt.get("returned_under_fault", 0) + 1
        if rec["ok"] == "exc":
            viol.append(V("raised", i, f"{step['fn']}({m}x{n}, R={Rk}, {step['kwargs']}) raised "
                                       f"{rec.get('exc')}: {rec.get('exc_msg')}"))
            return
        val = ex.values[i]
        if not (isinstance(val, tuple) and len(val) == 3):
            viol.append(V("shape", i, f"returned {type(val).__name__}"))
            return
        U, s, Vq = val
        s = np.asarray(s, dtype=float)
        if not (is_qmat(U, (m, Rk)) and is_qmat(Vq, (n, Rk)) and s.shape == (Rk,)):
            viol.append(V("shape", i, f"shapes U {getattr(U, 'shape', None)}, s {s.shape}, V {getattr(Vq, 'shape', None)}; "
                                      f"expected ({m},{Rk}), ({Rk},), ({n},{Rk})"))
            return
        if not (finite(qalg.comps(U)) and finite(qalg.comps(Vq)) and finite(s)):
            viol.append(V("nan", i, "non-finite factors"))
            return
        key = json.dumps(step["args"][0], sort_keys=True)
        if key not in self.meta:
            A = self.dense(step["args"][0])
            self.meta[key] = (A, qalg.svdvals(A), qalg.fro(A))
        A, sig, nA = self.meta[key]
        scale = max(nA, 1e-300)
        eu = qalg.fro(qalg.mm(qalg.herm(U), U) - qalg.eye(Rk))
        ev = qalg.fro(qalg.mm(qalg.herm(Vq), Vq) - qalg.eye(Rk))
        if eu > 1e-8 * Rk:
            viol.append(V("orthU", i, f"||U^H U - I||_F = {eu:.3e} ({m}x{n}, rank {t['rank']}, R={Rk}, P={t['P']})"))
        if ev > 1e-8 * Rk:
            viol.append(V("orthV", i, f"||V^H V - I||_F = {ev:.3e} ({m}x{n}, rank {t['rank']}, R={Rk}, P={t['P']})"))
        if np.any(s < -1e-12 * scale) or np.any(np.diff(s) > 1e-10 * scale):
            viol.append(V("order", i, f"s not non-negative / non-increasing: {s.tolist()}"))
        if np.any(s > sig[:Rk] * (1 + 1e-9) + 1e-11 * scale):
            viol.append(V("interlace", i, f"s = {s.tolist()} exceeds sigma(A) = {sig[:Rk].tolist()}"))
        err = qalg.fro(A - qalg.mmm(U, qalg.diag(s.tolist(), Rk, Rk), qalg.herm(Vq)))
        opt = math.sqrt(float(np.sum(sig[Rk:] ** 2)))
        if err < opt - 1e-9 * scale:
            viol.append(V("below_optimum", i, f"error {err:.6e} below the Eckart-Young optimum {opt:.6e}"))
        if err > nA * (1 + 1e-9) + 1e-300:
            viol.append(V("above_norm", i, f"error {err:.6e} exceeds ||A||_F = {nA:.6e}"))
        if t["numrank"] == t["rank"] and t["rank"] <= Rk and err > 1e-8 * scale:
            viol.append(V("inexact_lowrank", i, f"rank(A) = {t['rank']} <= R = {Rk} but error {err:.3e} "
                                                f"(||A||_F = {nA:.3e}; {m}x{n}, P={t['P']}, {step['kwargs']})"))

    def ref_requests(self, ex):
        # the result is a function of (arguments, RNG state at invoke): pristine-world refinement
        return [(i, ref_request(ex, i, self.trace["steps"][i], ex.states)) for i in self.need]

    def stats(self, ex):
        return dict(self.cnt)


def finding_tags(trace, v):
    idx = v.get("step", -1)
    st = trace["steps"][idx] if 0 <= idx < len(trace["steps"]) else {}
    if st.get("k") == "repeat":
        st = trace["steps"][st["of"]]
    tags = dict(st.get("tags") or {})
    tags["oracle"] = v["oracle"]
    return tags


def violation_target(trace, v):
    t = finding_tags(trace, v)
    reg = "+".join(k for k in ("rank_lt_R", "wide_sketch", "repeated_sv") if t.get(k)) or "regular"
    return f"{t.get('routine')}:{reg}"


def signature(trace, result):
    sig = []
    for s in trace["steps"]:
        if s["k"] == "fn":
            t = s["tags"]
            sig.append((t["routine"], t["m"], t["n"], t["family"], t["rank"], t["R"], t["P"], t.get("scale"),
                        tuple(sorted(s["kwargs"].items()))))
        else:
            sig.append((s["k"], s.get("op")))
    return repr(sig)


def nontrivial(trace, result):
    for s in trace["steps"]:
        if s["k"] == "fn":
            t = s["tags"]
            return min(t["m"], t["n"]) >= 2 and not t["zero"]
    return False


def evidence_extra(jobs, results):
    reg = {}
    for r in results:
        for k, v in (r.get("stats") or {}).items():
            if k.startswith("regime_"):
                reg[k] = reg.get(k, 0) + v
    return {"calls_per_regime": reg}


def simplify(trace):
    out = []
    for si, s in enumerate(trace["steps"]):
        if s["k"] != "fn":
            continue
        t = s["tags"]
        A = s["args"][0]
        if A.get("gen") == "scale":
            tr = json.loads(json.dumps(trace))
            tr["steps"][si]["args"][0] = A["of"]
            tr["steps"][si]["tags"]["scale"] = 0
            out.append(tr)
            continue
        cands = []
        if t["P"] > 0:
            cands.append(("P", t["P"] - 1))
            cands.append(("P", 0))
        for fld in ("n_iter", "n_passes"):
            if fld in s["kwargs"] and s["kwargs"][fld] > (0 if fld == "n_iter" else 2):
                cands.append((fld, s["kwargs"][fld] - 1))
        for fld, val in cands:
            tr = json.loads(json.dumps(trace))
            st = tr["steps"][si]
            if fld == "P":
                st["kwargs"]["oversample"] = val
                st["tags"]["P"] = val
                st["tags"]["wide_sketch"] = st["tags"]["R"] + val > min(t["m"], t["n"])
            else:
                st["kwargs"][fld] = val
            out.append(tr)
        for dim in ("m", "n"):
            if A.get("gen") != "psvd":
                break
            if A[dim] > 1 and min(A["m"] - (dim == "m"), A["n"] - (dim == "n")) >= max(t["R"], 1):
                tr = json.loads(json.dumps(trace))
                st = tr["steps"][si]
                A2 = st["args"][0]
                A2[dim] -= 1
                k2 = min(A2["m"], A2["n"])
                A2["sigma"] = A2["sigma"][:k2]
                st["tags"][dim] = A2[dim]
                st["tags"]["rank"] = sum(1 for v in A2["sigma"] if v != 0)
                st["tags"]["wide_sketch"] = t["R"] + st["tags"]["P"] > k2
                st["tags"].update(regime_tags(A2["sigma"], t["R"]))
                out.append(tr)
    return out
