"""Batch driver: worker pool (one template process per slot, one import world each),
forked run processes, forked one-shot pristine evaluators, known-finding triage,
minimisation, fresh-interpreter replay, evidence (DESIGN 2.1-2.6).
"""

import concurrent.futures as cf
import faulthandler
import hashlib
import importlib
import json
import multiprocessing as mp
import os
import pickle
import select
import signal
import subprocess
import sys
import time
import traceback

from . import REPO_ROOT, VERIF_ROOT

RUN_TIMEOUT_S = float(os.environ.get("QSIM_RUN_TIMEOUT", "900"))
NWORKERS = int(os.environ.get("QSIM_WORKERS", str(os.cpu_count() or 4)))

_WORLD = None
_REFCACHE = {}


class HarnessError(Exception):
    pass


def prop_module(pid):
    return importlib.import_module("qsim.props." + pid.lower())


# ------------------------------------------------------------------ worker side

def _worker_init(style, repo_root):
    global _WORLD
    import warnings
    from . import qalg, world
    warnings.simplefilter("ignore")
    qalg.self_test()
    _WORLD = world.World(style, repo_root)


def _forked(fn, timeout):
    """Run fn() in a forked child; return its pickled result. Raises HarnessError on
    child death or timeout (never turned into a verdict)."""
    r, w = os.pipe()
    pid = os.fork()
    if pid == 0:
        code = 0
        try:
            os.close(r)
            faulthandler.enable()
            faulthandler.dump_traceback_later(timeout + 5, exit=True)
            try:
                res = ("ok", fn())
            except BaseException:  # noqa: BLE001
                res = ("err", traceback.format_exc())
            data = pickle.dumps(res, protocol=pickle.HIGHEST_PROTOCOL)
            view = memoryview(data)
            while view:
                n = os.write(w, view[:1 << 16])
                view = view[n:]
            os.close(w)
        except BaseException:  # noqa: BLE001
            code = 3
        finally:
            os._exit(code)
    os.close(w)
    chunks = []
    deadline = time.monotonic() + timeout
    try:
        while True:
            left = deadline - time.monotonic()
            if left <= 0:
                os.kill(pid, signal.SIGKILL)
                os.waitpid(pid, 0)
                raise HarnessError(f"run process exceeded {timeout}s wall time")
            rl, _, _ = select.select([r], [], [], min(left, 5.0))
            if not rl:
                continue
            b = os.read(r, 1 << 20)
            if not b:
                break
            chunks.append(b)
    finally:
        os.close(r)
    os.waitpid(pid, 0)
    if not chunks:
        raise HarnessError("run process died without a result")
    kind, val = pickle.loads(b"".join(chunks))
    if kind == "err":
        raise HarnessError("run process raised:\n" + val)
    return val


def _req_key(req):
    h = hashlib.sha256()
    from .world import rng_digest
    slim = {k: v for k, v in req.items() if k not in ("rng_state", "prelude", "compare")}
    slim["prelude"] = [{"index": p["index"], "step": p["step"],
                        "rng": rng_digest(p["rng_state"]) if p.get("rng_state") is not None else None}
                       for p in (req.get("prelude") or [])]
    h.update(json.dumps(slim, sort_keys=True, default=str).encode())
    if req.get("rng_state") is not None:
        h.update(rng_digest(req["rng_state"]).encode())
    return h.hexdigest()


def _reference(req):
    from . import world
    key = _req_key(req)
    if key in _REFCACHE:
        return _REFCACHE[key], True
    out = _forked(lambda: world.reference_eval(_WORLD, req), RUN_TIMEOUT_S)
    _REFCACHE[key] = out
    return out, False


def history_digest(recs):
    slim = []
    for r in recs:
        slim.append({k: r.get(k) for k in ("i", "k", "ok", "exc", "digest", "rng_before",
                                           "rng_after", "lines", "draws", "args_changed",
                                           "clock_reads", "probes", "fault_fired",
                                           "obj_before", "obj_after", "seq_invoke", "sub_digest", "K")})
    return hashlib.sha256(json.dumps(slim, sort_keys=True, default=str).encode()).hexdigest()[:24]


def _run_in_child(trace):
    from . import world
    pm = prop_module(trace["prop"])
    ex = world.Executor(_WORLD, trace)
    hooks = pm.Hooks(trace)
    viol = ex.run(hooks)
    reqs = hooks.ref_requests(ex) if hasattr(hooks, "ref_requests") else []
    stats = hooks.stats(ex) if hasattr(hooks, "stats") else {}
    return {"recs": ex.recs, "viol": viol, "reqs": reqs, "stats": stats}


def _target(trace, v):
    pm = prop_module(trace["prop"])
    if hasattr(pm, "violation_target"):
        try:
            return pm.violation_target(trace, v) or ""
        except Exception:  # noqa: BLE001
            return ""
    return ""


def run_job(job):
    """Executed in a worker (template) process.  job = {seed, world, trace}."""
    t0 = time.monotonic()
    trace = job["trace"]
    if _WORLD is None or _WORLD.style != trace["world"]:
        raise HarnessError(f"worker world {_WORLD and _WORLD.style} != trace world {trace['world']}")
    try:
        res = _forked(lambda: _run_in_child(trace), RUN_TIMEOUT_S)
    except HarnessError as e:
        return {"seed": job.get("seed"), "world": trace["world"], "harness_error": str(e)}
    viol = list(res["viol"])
    recs = res["recs"]
    nref = ncached = 0
    for (i, req) in res["reqs"]:
        try:
            ref, cached = _reference(req)
        except HarnessError as e:
            return {"seed": job.get("seed"), "world": trace["world"],
                    "harness_error": f"reference evaluation: {e}"}
        nref += 1
        ncached += int(cached)
        rec = recs[i]
        if req.get("compare") is not None:
            # a family of observed outcomes (follow-up calls of a crash-recovery sweep)
            # against one pristine evaluation
            for ob in req["compare"]:
                bad = None
                if ref["ok"] != ob["ok"] or ref.get("exc") != ob.get("exc"):
                    bad = ("refine_outcome", f"after a crash at line event {ob['k']} of the previous call on the same "
                                             f"object: {ob['ok']} {ob.get('exc')}; pristine world: {ref['ok']} {ref.get('exc')}")
                elif ref["ok"] == "ret" and ref["digest"] != ob["digest"]:
                    bad = ("refine_value", f"after a crash at line event {ob['k']} of the previous call on the same object the "
                                           f"value differs from the pristine world: got {json.dumps(ob.get('summary'), default=str)[:250]} "
                                           f"want {json.dumps(ref.get('summary'), default=str)[:250]}")
                elif ref["rng_after"] != ob["rng_after"]:
                    bad = ("refine_rng", f"after a crash at line event {ob['k']}: RNG position differs from the pristine world")
                if bad:
                    viol.append({"oracle": bad[0], "step": i, "detail": bad[1], "explicit": ob["explicit"]})
            continue
        rec["ref_digest"] = ref.get("digest")
        rec["ref_ok"] = ref["ok"]
        if ref["ok"] != rec["ok"] or ref.get("exc") != rec.get("exc"):
            viol.append({"oracle": "refine_outcome", "step": i,
                         "detail": f"world under test: {rec['ok']} {rec.get('exc')}; "
                                   f"pristine world: {ref['ok']} {ref.get('exc')}"})
        elif ref["ok"] == "ret" and ref["digest"] != rec["digest"]:
            viol.append({"oracle": "refine_value", "step": i,
                         "detail": f"value differs from the pristine-world evaluation: "
                                   f"got {json.dumps(rec.get('summary'), default=str)[:300]} "
                                   f"want {json.dumps(ref.get('summary'), default=str)[:300]}"})
        elif ref["rng_after"] != rec["rng_after"]:
            viol.append({"oracle": "refine_rng", "step": i,
                         "detail": "global RNG position after the call differs from the pristine world"})
    for v in viol:
        v.setdefault("prop", trace["prop"])
        st = trace["steps"][v["step"]] if 0 <= v.get("step", -1) < len(trace["steps"]) else {}
        if v.get("explicit"):
            st = v["explicit"][-1]
        v["cls"] = [trace["prop"], v["oracle"], st.get("k"),
                    "+".join(sorted((st.get("fault") or {}).keys())) or "none",
                    _target(trace, v)]
    out = {
        "seed": job.get("seed"), "world": trace["world"], "viol": viol,
        "hist": history_digest(recs), "stats": res["stats"], "nsteps": len(recs),
        "nref": nref, "nref_cached": ncached, "wall": time.monotonic() - t0,
        "steps": [{k: r.get(k) for k in ("k", "ok", "exc", "digest", "lines", "probes",
                                         "fault_fired", "fault_at", "clock_reads", "sim_s",
                                         "draws", "reseeds", "rng_before", "obj_after", "K", "n_sub",
                                         "n_raised", "n_returned", "n_fired")} for r in recs],
    }
    if job.get("keep_recs"):
        out["recs"] = recs
    return out


# ------------------------------------------------------------------ driver side

class Pools:
    def __init__(self, worlds, nworkers=None, repo_root=None):
        nworkers = nworkers or NWORKERS
        self.repo_root = repo_root or REPO_ROOT
        per = max(1, nworkers // len(worlds))
        ctx = mp.get_context("fork")
        self.pools = {w: cf.ProcessPoolExecutor(max_workers=per, mp_context=ctx,
                                                initializer=_worker_init,
                                                initargs=(w, self.repo_root))
                      for w in worlds}
        self.per = per

    def submit(self, job):
        return self.pools[job["trace"]["world"]].submit(run_job, job)

    def run_one(self, job):
        return self.submit(job).result(timeout=RUN_TIMEOUT_S * 4)

    def close(self):
        for p in self.pools.values():
            p.shutdown(wait=True, cancel_futures=True)


def run_trace(pools, trace, keep_recs=False):
    """Run one trace (in its world, and additionally in trace['compare_world'] for the
    import-identity oracle); returns the result with cross-world violations appended."""
    res = pools.run_one({"seed": trace.get("seed"), "trace": trace, "keep_recs": keep_recs})
    other = trace.get("compare_world")
    if other and "harness_error" not in res:
        t2 = dict(trace, world=other)
        t2.pop("compare_world")
        res2 = pools.run_one({"seed": trace.get("seed"), "trace": t2})
        if "harness_error" in res2:
            return res2
        pm = prop_module(trace["prop"])
        res["job"] = {"trace": trace}
        res2["job"] = {"trace": t2}
        for _r, v in pm.cross_check([res2, res]):
            res["viol"].append(v)
    return res


def xrun_jobs(jobs, hashseed, nworkers=4):
    """Run jobs in a FRESH interpreter started with PYTHONHASHSEED=hashseed; returns
    {key: [(ok, exc, digest) per step]} with key = seed:world:trace digest (or None + error text)."""
    d = os.path.join(VERIF_ROOT, "replays")
    os.makedirs(d, exist_ok=True)
    path = os.path.join(d, f"xrun_{os.getpid()}_{hashseed}.json")
    with open(path, "w") as f:
        json.dump({"jobs": [{"seed": j.get("seed"), "trace": j["trace"]} for j in jobs], "workers": nworkers}, f)
    env = dict(os.environ, PYTHONHASHSEED=str(hashseed))
    try:
        p = subprocess.run([sys.executable, "-B", "-m", "qsim", "xrun", path], cwd=VERIF_ROOT, env=env,
                           capture_output=True, text=True, timeout=RUN_TIMEOUT_S * 4)
    finally:
        try:
            os.remove(path)
        except OSError:
            pass
    for line in p.stdout.splitlines():
        if line.startswith("XRUN-RESULT "):
            return json.loads(line[len("XRUN-RESULT "):]), None
    return None, (p.stdout[-1000:] + p.stderr[-2000:])


def job_key(job):
    return f"{job.get('seed')}:{job['trace']['world']}:{trace_digest(job['trace'])}"


def step_sigs(res):
    return [[st.get("ok"), st.get("exc"), st.get("digest")] for st in res.get("steps", [])]


def load_known_findings():
    path = os.path.join(VERIF_ROOT, "known_findings.json")
    try:
        with open(path) as f:
            data = json.load(f)
    except FileNotFoundError:
        return []
    return [e for e in data.get("findings", []) if e.get("status", "open") == "open"]


def match_known(known, tags):
    for e in known:
        if all(tags.get(k) == v for k, v in e["match"].items()):
            return e
    return None


def trace_digest(trace):
    return hashlib.sha256(json.dumps(trace, sort_keys=True).encode()).hexdigest()[:16]


def save_replay(trace, viol, name):
    d = os.path.join(VERIF_ROOT, "replays")
    os.makedirs(d, exist_ok=True)
    path = os.path.join(d, name)
    doc = {"trace": trace, "violation": viol, "repo": REPO_ROOT}
    with open(path, "w") as f:
        json.dump(doc, f, indent=1, sort_keys=True)
    return path


def replay_fresh(path):
    """Replay a file in a fresh interpreter; returns (exit code, parsed result lines)."""
    env = dict(os.environ)
    env["PYTHONHASHSEED"] = "0"
    p = subprocess.run([sys.executable, "-B", "-m", "qsim", "replay", path],
                       cwd=VERIF_ROOT, env=env, capture_output=True, text=True,
                       timeout=RUN_TIMEOUT_S * 2)
    res = None
    for line in p.stdout.splitlines():
        if line.startswith("REPLAY-RESULT "):
            res = json.loads(line[len("REPLAY-RESULT "):])
    return p.returncode, res, p.stdout[-2000:] + p.stderr[-2000:]
