"""Independent quaternion linear algebra for the oracles (DESIGN 3, "Independent arithmetic").

No routine of the repository is used.  A quaternion matrix A = W + Xi + Yj + Zk is
mapped to its complex adjoint chi(A) = [[C, D], [-conj(D), conj(C)]], C = W + iX,
D = Y + iZ; chi is a *-homomorphism, so products, adjoints, SVD, eigh, pinv and lstsq
are taken with NumPy on chi(A) (every singular value / eigenvalue appears twice).

Trusted base: NumPy/LAPACK, numpy-quaternion's component view, this file
(self_test() checks the 16 basis products and the homomorphism property).
"""

import numpy as np
import quaternion  # noqa: F401  (registers the dtype)


def comps(A):
    """(..., 4) float view/copy of a quaternion array."""
    return quaternion.as_float_array(np.asarray(A, dtype=np.quaternion))


def from_comps(F):
    return quaternion.as_quat_array(np.ascontiguousarray(F, dtype=float))


def chi(A):
    f = comps(A)
    C = f[..., 0] + 1j * f[..., 1]
    D = f[..., 2] + 1j * f[..., 3]
    return np.block([[C, D], [-D.conj(), C.conj()]])


def unchi(M):
    m = M.shape[0] // 2
    n = M.shape[1] // 2
    C = M[:m, :n]
    D = M[:m, n:]
    return from_comps(np.stack([C.real, C.imag, D.real, D.imag], axis=-1))


def mm(A, B):
    return unchi(chi(A) @ chi(B))


def mmm(*Ms):
    out = chi(Ms[0])
    for M in Ms[1:]:
        out = out @ chi(M)
    return unchi(out)


def herm(A):
    f = comps(A).copy()
    f[..., 1:] *= -1.0
    return from_comps(np.swapaxes(f, 0, 1))


def fro(A):
    return float(np.sqrt(np.sum(comps(A) ** 2)))


def eye(n):
    f = np.zeros((n, n, 4))
    for i in range(n):
        f[i, i, 0] = 1.0
    return from_comps(f)


def zeros(m, n):
    return from_comps(np.zeros((m, n, 4)))


def diag(vals, m=None, n=None):
    k = len(vals)
    m = k if m is None else m
    n = k if n is None else n
    f = np.zeros((m, n, 4))
    for i in range(min(k, m, n)):
        f[i, i, 0] = vals[i]
    return from_comps(f)


def svdvals(A):
    """Quaternion singular values (each once), descending."""
    if min(A.shape) == 0:
        return np.zeros(0)
    s = np.linalg.svd(chi(A), compute_uv=False)
    return s[::2].copy()


def norm2(A):
    s = svdvals(A)
    return float(s[0]) if len(s) else 0.0


def cond(A):
    s = svdvals(A)
    if len(s) == 0:
        return 1.0
    if s[-1] == 0:
        return float("inf")
    return float(s[0] / s[-1])


def pinv(A, rcond=1e-12):
    return unchi(np.linalg.pinv(chi(A), rcond=rcond))


def solve(A, B):
    return unchi(np.linalg.solve(chi(A), chi(B)))


def eigvalsh(A):
    """Eigenvalues of a Hermitian quaternion matrix (each once), ascending."""
    w = np.linalg.eigvalsh(chi(A))
    return w[::2].copy()


def polar_unitary(G):
    """Unitary polar factor of a (square, nonsingular) quaternion matrix; stays structured."""
    c = chi(G)
    U, s, Vh = np.linalg.svd(c)
    return unchi(U @ Vh)


def real_cols(A):
    """Real coordinate vector of a quaternion array (for real least squares)."""
    return comps(A).ravel()


_UNITS = None


def units():
    global _UNITS
    if _UNITS is None:
        _UNITS = [np.quaternion(1, 0, 0, 0), np.quaternion(0, 1, 0, 0),
                  np.quaternion(0, 0, 1, 0), np.quaternion(0, 0, 0, 1)]
    return _UNITS


def krylov_min_residual(A, b, x0, m, with_rho=False):
    """min over x in x0 + K_m(A, r0) (right quaternion span) of ||b - A x||_F.

    K_m is the right H-module spanned by r0, A r0, ..., A^{m-1} r0; in real
    coordinates each basis vector w contributes the four columns A(w u), u in
    {1,i,j,k}.  The basis is orthonormalised by a real QR for conditioning.
    """
    r0 = b - mm(A, x0)
    nr = fro(r0)
    if nr == 0.0:
        return (0.0, 1.0) if with_rho else 0.0
    rho_min = 1.0
    # Harness-side quaternion Arnoldi in real coordinates.  The real span of
    # {w u : u in 1,i,j,k} is a right H-module, so its orthogonal projector commutes
    # with right multiplication and the remainder of (A w) u is (remainder of A w) u:
    # it is enough to orthogonalise one quaternion vector per step.  The recursion
    # stops at (near) invariance, which only ever makes the space smaller and the
    # returned minimum larger - the safe direction for the optimality oracle.
    N = A.shape[0]
    w = r0 * (1.0 / nr)
    Qcols = []   # real-orthonormal coordinates of the basis built so far
    ws = []
    for _ in range(m):
        ws.append(w)
        for u in units():
            Qcols.append(real_cols(w * u))
        Aw = mm(A, w)
        v = real_cols(Aw)
        nv0 = np.linalg.norm(v)
        Qm = np.array(Qcols).T
        for _rep in range(2):
            v = v - Qm @ (Qm.T @ v)
        nv = np.linalg.norm(v)
        if _ < m - 1:
            rho_min = min(rho_min, (nv / nv0) if nv0 > 0 else 0.0)
        if nv0 == 0.0 or nv <= 1e-8 * nv0:
            break
        w = from_comps((v / nv).reshape(N, 1, 4))
    cols = []
    for wj in ws:
        Awj = mm(A, wj)
        for u in units():
            cols.append(real_cols(Awj * u))
    M = np.array(cols).T
    rhs = real_cols(r0)
    y, *_rest = np.linalg.lstsq(M, rhs, rcond=None)
    opt = float(np.linalg.norm(M @ y - rhs))
    return (opt, float(rho_min)) if with_rho else opt


def self_test():
    """Check chi on the 16 basis products and on random products against the
    Hamilton product implemented by numpy-quaternion's scalar type."""
    U = units()
    table = {(0, 0): (0, 1), (0, 1): (1, 1), (0, 2): (2, 1), (0, 3): (3, 1),
             (1, 0): (1, 1), (1, 1): (0, -1), (1, 2): (3, 1), (1, 3): (2, -1),
             (2, 0): (2, 1), (2, 1): (3, -1), (2, 2): (0, -1), (2, 3): (1, 1),
             (3, 0): (3, 1), (3, 1): (2, 1), (3, 2): (1, -1), (3, 3): (0, -1)}
    for (a, b), (c, sgn) in table.items():
        A = np.array([[U[a]]], dtype=np.quaternion)
        B = np.array([[U[b]]], dtype=np.quaternion)
        got = comps(mm(A, B))[0, 0]
        want = np.zeros(4)
        want[c] = sgn
        if not np.array_equal(got, want):
            raise AssertionError(f"qalg basis product {a}*{b}: {got} != {want}")
    rng = np.random.default_rng(12345)
    A = from_comps(rng.standard_normal((3, 4, 4)))
    B = from_comps(rng.standard_normal((4, 2, 4)))
    C = mm(A, B)
    ref = np.zeros((3, 2), dtype=np.quaternion)
    for i in range(3):
        for j in range(2):
            acc = np.quaternion(0, 0, 0, 0)
            for k in range(4):
                acc = acc + A[i, k] * B[k, j]
            ref[i, j] = acc
    if fro(C - ref) > 1e-13:
        raise AssertionError("qalg matrix product disagrees with scalar Hamilton products")
    if fro(herm(mm(A, B)) - mm(herm(B), herm(A))) > 1e-13:
        raise AssertionError("qalg adjoint is not an anti-homomorphism")
    return True
