"""One simulated world: the library imported in a chosen style with every seam of
DESIGN section 1 owned by the simulator, plus the step executor.

A World is created once per worker ("template") process.  The template never calls a
library function itself; runs and reference evaluations happen in forked children.
"""

import contextlib
import hashlib
import importlib
import io
import os
import struct
import sys

import numpy as np
import quaternion  # noqa: F401

from . import REPO_ROOT, gens

WORLDS = ("pkg", "flat", "pkg_then_flat", "flat_then_pkg")

TIMING_KEYS = ("iteration_times", "total_time")
# positional return values that are wall-clock measurements
TIMING_IDX = {("HigherOrderNewtonSchulzPseudoinverse", "compute"): (2,)}
# documented in-place kernels: exempt from the argument-immutability oracle when
# called directly (DESIGN C14 oracle 1)
INPLACE_KERNELS = ("utils.Hess_QR_ggivens", "utils.UtriangleQsparse")

FLAT_MODULES = ("utils", "data_gen", "solver", "tensor", "qslst", "decomp", "decomp.qsvd",
                "decomp.LU", "decomp.eigen", "decomp.tridiagonalize", "decomp.hessenberg",
                "decomp.schur")

PROBES = {
    # name: (file relative to quatica/, text identifying an anchor line, line offset).
    # The probed line must be one that executes whenever the branch is taken (not a
    # print guarded by `verbose`).  Resolved by source text, never by line number; a
    # probe that cannot be resolved is reported as unresolved, never as a failure.
    "gmres_lucky_breakdown": ("solver.py", "Lucky breakdown occurred", -1),
    "gmres_lu_fallback": ("solver.py", "LU preconditioning failed", -2),
    "gmres_lu_applied": ("solver.py", "Applied left LU preconditioner", -1),
    "gmres_exact_restart": ("solver.py", "empty = np.zeros((N, 0))", 0),
    "utri_zero_diag_inner": ("utils.py", 'print(f"U0({i},{i})=0', 0),
    "utri_zero_diag_last": ("utils.py", 'print("U0(n,n)=0', 0),
    "rsp_col_redraw": ("solver.py", "update failed, redrawing sketch", -1),
    "rsp_ns_fallback_col": ("solver.py", "G_inv = self._invert_quat_small(G, ns_iters=16)", 0),
    "rsp_ns_fallback_row": ("solver.py", "ZZ_H_inv = self._invert_quat_small(ZZ_H, ns_iters=16)", 0),
    "hyb_skip_step": ("solver.py", "return X  # skip on failure", 0),
    "hyb_ns_fallback": ("solver.py", "G_inv = RandomizedSketchProjectPseudoinverse._invert_quat_small(self, G, ns_iters=16)", 0),
    "cgne_zero_dir": ("solver.py", "if Wn <= 1e-20:", 1),
    "qsvd_wide_fallback": ("decomp/qsvd.py", "Q2_full, RR_full = qr_qua(Q2_temp)", 0),
    "qsvd_wide_fallback_loop": ("decomp/qsvd.py", "Q1_full, _ = qr_qua(Q1_temp)", 0),
    "qr_wide_branch": ("decomp/qsvd.py", "Qr_thin = Qr  # 4m", 0),
    "pi_stagnation": ("utils.py", "Stagnation detected", -1),
    "pi_converged": ("utils.py", "Converged at iteration {iteration} with norm_diff", -2),
    "pi_breakdown": ("utils.py", "Breakdown at iteration", -1),
    "lu_zero_pivot": ("decomp/LU.py", "Zero pivot encountered", 0),
    "ggivens_tiny": ("utils.py", "q4 = np.array([1, 0, 0, 0])", 0),
}


class SimClock:
    """Replaces the `time` module inside quatica.solver (seam S2)."""

    def __init__(self):
        self.now = 1.7e9
        self.script = [1e-3]
        self.pos = 0
        self.reads = 0
        self.elapsed = 0.0

    def set_script(self, script):
        self.script = list(script) if script else [1e-3]
        self.pos = 0

    def time(self):
        dt = self.script[self.pos % len(self.script)]
        self.pos += 1
        self.reads += 1
        self.now += dt
        self.elapsed += abs(dt)
        return self.now

    # anything else the library might one day call on `time`
    def perf_counter(self):
        return self.time()

    def monotonic(self):
        return self.time()

    def sleep(self, s):
        self.now += s
        self.elapsed += abs(s)


class LineMonitor:
    """sys.monitoring LINE events on repository code: counts executed lines, counts
    branch probes and can raise a transient failure at the k-th line (crash points)."""

    TOOL = 4

    def __init__(self, pkgdir):
        self.pkgdir = os.path.normpath(pkgdir) + os.sep
        self.mon = sys.monitoring
        self.active = False
        self.k = 0
        self.fault_at = None
        self.fired = None
        self.hits = {}
        self.funcmap = None
        self.probe_lines = {}
        self.unresolved = []
        self._codeinfo = {}
        self._resolve_probes()
        try:
            self.mon.use_tool_id(self.TOOL, "qsim")
        except ValueError:
            pass
        self.mon.register_callback(self.TOOL, self.mon.events.LINE, self._on_line)
        self.mon.set_events(self.TOOL, self.mon.events.LINE)

    def _resolve_probes(self):
        cache = {}
        for name, (rel, text, off) in PROBES.items():
            path = os.path.join(self.pkgdir, rel)
            if path not in cache:
                try:
                    with open(path, encoding="utf-8") as f:
                        cache[path] = f.read()
                except OSError:
                    cache[path] = ""
            src = cache[path]
            pos = src.find(text)
            if pos < 0:
                self.unresolved.append(name)
                continue
            lineno = src.count("\n", 0, pos) + 1 + off
            self.probe_lines.setdefault((rel, lineno), []).append(name)

    def _info(self, code):
        fn = os.path.normpath(code.co_filename)
        if fn.startswith(self.pkgdir):
            info = fn[len(self.pkgdir):]
        else:
            info = None
        self._codeinfo[code] = info
        return info

    def _on_line(self, code, lineno):
        info = self._codeinfo.get(code, 0)
        if info == 0:
            info = self._info(code)
        if info is None or code.co_name == "<module>":
            return self.mon.DISABLE
        if not self.active:
            return None
        self.k += 1
        if self.funcmap is not None:
            self.funcmap.append(code.co_name)
        names = self.probe_lines.get((info, lineno))
        if names:
            for nm in names:
                self.hits[nm] = self.hits.get(nm, 0) + 1
        if self.k == self.fault_at:
            self.fired = (info, code.co_name, lineno)
            self.fault_at = None
            raise MemoryError(f"qsim injected fault at line event {self.k} ({info}:{lineno})")
        return None

    def begin(self, fault_at=None, record_funcs=False):
        self.funcmap = [] if record_funcs else None
        self.k = 0
        self.fault_at = fault_at
        self.fired = None
        self.hits = {}
        self.active = True

    def end(self):
        self.active = False
        return self.k, self.fired, self.hits


def _h():
    return hashlib.sha256()


def _upd_array(h, a):
    a = np.asarray(a)
    if a.dtype == np.quaternion:
        f = quaternion.as_float_array(a)
        h.update(b"Q" + repr(a.shape).encode())
        h.update(np.ascontiguousarray(f).tobytes())
    elif a.dtype == object:
        h.update(b"O" + repr(a.shape).encode())
        for v in a.ravel().tolist():
            canon(v, h)
    else:
        h.update(a.dtype.str.encode() + repr(a.shape).encode())
        h.update(np.ascontiguousarray(a).tobytes())


def _is_sqm(v):
    return (hasattr(v, "real") and hasattr(v, "i") and hasattr(v, "j") and hasattr(v, "k")
            and hasattr(v, "shape") and hasattr(getattr(v, "i"), "tocsr"))


def canon(v, h, skip_idx=()):
    """Feed a canonical byte form of a returned value into hash h (timing fields
    excluded by name / position)."""
    if isinstance(v, np.ndarray):
        _upd_array(h, v)
    elif isinstance(v, (bool, np.bool_)):
        h.update(b"b1" if v else b"b0")
    elif isinstance(v, (int, np.integer)):
        h.update(b"i" + str(int(v)).encode())
    elif isinstance(v, (float, np.floating)):
        h.update(b"f" + struct.pack("<d", float(v)))
    elif isinstance(v, (complex, np.complexfloating)):
        h.update(b"c" + struct.pack("<dd", v.real, v.imag))
    elif isinstance(v, np.quaternion):
        h.update(b"q" + struct.pack("<dddd", v.w, v.x, v.y, v.z))
    elif v is None:
        h.update(b"N")
    elif isinstance(v, str):
        h.update(b"s" + v.encode())
    elif isinstance(v, (list, tuple)):
        h.update(b"L" if isinstance(v, list) else b"T")
        h.update(str(len(v)).encode())
        for idx, x in enumerate(v):
            if idx in skip_idx:
                h.update(b"~")
                continue
            canon(x, h)
    elif isinstance(v, dict):
        h.update(b"D")
        for k in sorted(v, key=str):
            if k in TIMING_KEYS:
                continue
            h.update(b"k" + str(k).encode())
            canon(v[k], h)
    elif _is_sqm(v):
        h.update(b"SQM" + repr(tuple(v.shape)).encode())
        for part in (v.real, v.i, v.j, v.k):
            canon(part, h)
    elif hasattr(v, "tocsr"):
        c = v.tocsr()
        h.update(b"CSR" + repr(c.shape).encode())
        _upd_array(h, c.data)
        _upd_array(h, c.indices)
        _upd_array(h, c.indptr)
    else:
        h.update(b"?" + type(v).__name__.encode())


def digest(v, skip_idx=()):
    h = _h()
    canon(v, h, skip_idx)
    return h.hexdigest()[:32]


def rng_digest(state):
    h = _h()
    h.update(state[0].encode())
    h.update(np.asarray(state[1]).tobytes())
    h.update(repr(state[2:]).encode())
    return h.hexdigest()[:16]


def summarize(v, depth=0):
    """Small JSON-able description of a returned value for samples / replay output."""
    if isinstance(v, np.ndarray):
        if v.dtype == np.quaternion:
            f = quaternion.as_float_array(v)
            return {"quat": list(v.shape), "fro": float(np.sqrt(np.sum(f ** 2)))}
        if v.size <= 8 and v.dtype.kind in "fiu":
            return [float(x) for x in v.ravel()]
        return {"array": list(v.shape), "dtype": v.dtype.str}
    if isinstance(v, (bool, np.bool_)):
        return bool(v)
    if isinstance(v, (int, np.integer)):
        return int(v)
    if isinstance(v, (float, np.floating)):
        return float(v)
    if isinstance(v, (complex, np.complexfloating)):
        return [float(v.real), float(v.imag)]
    if isinstance(v, np.quaternion):
        return [v.w, v.x, v.y, v.z]
    if v is None or isinstance(v, str):
        return v
    if isinstance(v, (list, tuple)):
        if depth > 2 or len(v) > 12:
            return {"seq": len(v)}
        return [summarize(x, depth + 1) for x in v]
    if isinstance(v, dict):
        return {str(k): summarize(x, depth + 1) for k, x in v.items()
                if k not in ("V0", "V1", "V2", "V3") and k not in TIMING_KEYS}
    return type(v).__name__


class World:
    def __init__(self, style, repo_root=None):
        assert style in WORLDS, style
        self.style = style
        self.repo_root = os.path.abspath(repo_root or REPO_ROOT)
        self.pkgdir = os.path.join(self.repo_root, "quatica")
        self.op_style = "pkg" if style in ("pkg", "flat_then_pkg") else "flat"
        self.clock = SimClock()
        self.rng_log = None
        self._orig_randn = np.random.randn
        self._orig_seed = np.random.seed
        self.unavailable = []
        self._load()
        self.monitor = LineMonitor(self.pkgdir)
        self._install_rng_recorder()
        self.refresh_seams()

    # ---- import styles (seam S5) -------------------------------------------------
    def _load_pkg(self):
        if self.repo_root in sys.path:
            sys.path.remove(self.repo_root)
        sys.path.insert(0, self.repo_root)
        with contextlib.redirect_stdout(io.StringIO()):
            q = importlib.import_module("quatica")
            for m in FLAT_MODULES:
                importlib.import_module("quatica." + m)
        got = os.path.dirname(os.path.abspath(q.__file__))
        if got != self.pkgdir:
            raise RuntimeError(f"quatica imported from {got}, expected {self.pkgdir}")

    def _load_flat(self):
        if self.pkgdir in sys.path:
            sys.path.remove(self.pkgdir)
        sys.path.insert(0, self.pkgdir)
        # the flat `solver` falls back to `from quatica.decomp.qsvd import ...`
        if self.repo_root not in sys.path:
            sys.path.insert(1, self.repo_root)
        with contextlib.redirect_stdout(io.StringIO()):
            for m in FLAT_MODULES:
                mod = importlib.import_module(m)
                got = os.path.normpath(os.path.abspath(mod.__file__))
                if not got.startswith(self.pkgdir + os.sep):
                    raise RuntimeError(f"flat module {m} imported from {got}")

    def _load(self):
        import matplotlib
        matplotlib.use("Agg")
        order = {"pkg": ("pkg",), "flat": ("flat",), "pkg_then_flat": ("pkg", "flat"),
                 "flat_then_pkg": ("flat", "pkg")}[self.style]
        for s in order:
            (self._load_pkg if s == "pkg" else self._load_flat)()
        # Pre-warm the imports the library performs lazily inside calls (flat `decomp`
        # / `data_gen` from quatica.utils and quatica.solver; `quatica.decomp.qsvd`
        # from the flat solver), so that the first call of a run executes the same
        # lines as any later one and crash-point indices are stable (DESIGN 2.1).
        with contextlib.redirect_stdout(io.StringIO()):
            if self.pkgdir not in sys.path:
                sys.path.append(self.pkgdir)
            for m in ("decomp", "decomp.qsvd", "data_gen"):
                importlib.import_module(m)
            importlib.import_module("quatica.decomp.qsvd")

    def module(self, modpath):
        name = ("quatica." + modpath) if self.op_style == "pkg" else modpath
        if modpath == "":
            name = "quatica" if self.op_style == "pkg" else "utils"
        return importlib.import_module(name)

    def resolve(self, name):
        """'solver.QGMRESSolver' -> object, in this world's calling style."""
        parts = name.split(".")
        for cut in range(len(parts) - 1, 0, -1):
            try:
                obj = self.module(".".join(parts[:cut]))
            except ImportError:
                continue
            try:
                for p in parts[cut:]:
                    obj = getattr(obj, p)
                return obj
            except AttributeError:
                continue
        raise LookupError(f"cannot resolve {name!r} in world {self.style}")

    def repo_modules(self):
        if getattr(self, "_rm_n", None) == len(sys.modules):
            return self._rm
        out = []
        for nm, mod in list(sys.modules.items()):
            f = getattr(mod, "__file__", None)
            if f and os.path.normpath(os.path.abspath(f)).startswith(self.pkgdir + os.sep):
                out.append((nm, mod))
        self._rm, self._rm_n = out, len(sys.modules)
        return out

    # ---- seams ---------------------------------------------------------------------
    def refresh_seams(self):
        """(Re-)install the clock in every loaded copy of a module that imported `time`."""
        import time as _time
        if getattr(self, "_seams_n", None) == len(sys.modules):
            return
        self._seams_n = len(sys.modules)
        for nm, mod in self.repo_modules():
            t = mod.__dict__.get("time")
            if t is _time:
                mod.time = self.clock
            # `from time import time / perf_counter / monotonic` style: the function objects
            for attr, val in list(mod.__dict__.items()):
                if val is _time.time or val is _time.perf_counter or val is _time.monotonic:
                    setattr(mod, attr, self.clock.time)
                elif val is _time.sleep:
                    setattr(mod, attr, self.clock.sleep)

    def _install_rng_recorder(self):
        world = self
        orig_randn, orig_seed = self._orig_randn, self._orig_seed

        def randn(*shape):
            v = orig_randn(*shape)
            if world.rng_log is not None:
                world.rng_log.append(("randn", tuple(shape), np.array(v, copy=True)))
            return v

        def seed(*a, **k):
            if world.rng_log is not None:
                world.rng_log.append(("seed", a, None))
            return orig_seed(*a, **k)

        np.random.randn = randn
        np.random.seed = seed

    def to_sparse(self, dense, explicit_zeros=False, int_dtype=False):
        from scipy import sparse
        cls = self.resolve("utils.SparseQuaternionMatrix")
        f = quaternion.as_float_array(dense)
        parts = []
        for c in range(4):
            comp = np.ascontiguousarray(f[..., c])
            if int_dtype and np.all(comp == np.round(comp)):
                comp = comp.astype(np.int64)      # integer-valued components stored as integers
            if explicit_zeros:
                # a legal CSR layout in which every entry is stored, zeros included
                m, n = comp.shape
                indptr = np.arange(0, m * n + 1, n)
                indices = np.tile(np.arange(n), m)
                parts.append(sparse.csr_matrix((comp.ravel().copy(), indices, indptr), shape=(m, n)))
            else:
                parts.append(sparse.csr_matrix(comp))
        return cls(parts[0], parts[1], parts[2], parts[3], dense.shape)

    def build_arg(self, spec):
        if isinstance(spec, dict) and spec.get("gen") in ("list", "tuple") :
            items = [self.build_arg(s) for s in spec["items"]]
            return items if spec["gen"] == "list" else tuple(items)
        v = gens.build(spec)
        if gens.is_sparse_spec(spec):
            v = self.to_sparse(v, explicit_zeros=bool(spec.get("explicit_zeros")),
                               int_dtype=bool(spec.get("int_dtype")))
        lay = spec.get("layout") if isinstance(spec, dict) else None
        if lay and isinstance(v, np.ndarray) and v.ndim == 2:
            # memory layouts a caller may legitimately hand over (the pristine world builds
            # the same layout, so strides are equal on both sides)
            if lay == "F":
                v = np.asfortranarray(v)
            elif lay == "T":
                v = np.ascontiguousarray(v.T).T          # transposed view of a C buffer
            elif lay == "strided":
                big = np.zeros((2 * v.shape[0], 2 * v.shape[1]), dtype=v.dtype)
                big[::2, ::2] = v
                v = big[::2, ::2]                         # non-contiguous view
        return v

    # ---- fault plans ---------------------------------------------------------------
    @contextlib.contextmanager
    def fault_context(self, fault):
        """Install the non-line faults of a step for the duration of one op."""
        undo = []
        try:
            if fault.get("spd_fallback"):
                seen = set()
                for nm, mod in self.repo_modules():
                    cls = mod.__dict__.get("RandomizedSketchProjectPseudoinverse")
                    if cls is None or id(cls) in seen or "_solve_spd_quat" not in cls.__dict__:
                        continue
                    seen.add(id(cls))
                    orig = cls.__dict__["_solve_spd_quat"]

                    def forced(self_, G, B, tol=1e-8, max_iter=200, _orig=orig):
                        X, _ok = _orig(self_, G, B, tol=tol, max_iter=max_iter)
                        return X, False

                    cls._solve_spd_quat = forced
                    undo.append((cls, "_solve_spd_quat", orig))
            if fault.get("lu_fail"):
                for nm, mod in self.repo_modules():
                    if "quaternion_lu" in mod.__dict__ and nm.split(".")[-1] in ("decomp", "LU"):
                        orig = mod.__dict__["quaternion_lu"]

                        def failing(A, return_p=False):
                            raise ValueError("Zero pivot encountered at position (0, 0)")

                        mod.quaternion_lu = failing
                        undo.append((mod, "quaternion_lu", orig))
            if fault.get("linalg_fail"):
                # the k-th call of a LAPACK-backed factorisation (numpy.linalg / scipy.linalg `fn`) made by
                # the library during this op fails with LinAlgError ("did not converge"): a loud failure is
                # a legal outcome, a silently wrong answer is not
                import numpy.linalg as _nl
                import scipy.linalg as _sl
                fnname = fault["linalg_fail"]["fn"]
                state = {"n": 0, "at": int(fault["linalg_fail"].get("k", 1))}
                origs = {id(getattr(m_, fnname)): getattr(m_, fnname) for m_ in (_nl, _sl) if hasattr(m_, fnname)}

                def make(orig_):
                    def failing(*a_, **k_):
                        state["n"] += 1
                        if state["n"] == state["at"]:
                            raise np.linalg.LinAlgError(f"{fnname} did not converge (injected)")
                        return orig_(*a_, **k_)
                    return failing
                self.linalg_state = state
                wraps = {oid: make(o_) for oid, o_ in origs.items()}
                holders = [_nl, _sl] + [mod for _nm, mod in self.repo_modules()]
                for h_ in holders:
                    for attr, val in list(h_.__dict__.items()):
                        if callable(val) and id(val) in wraps:
                            setattr(h_, attr, wraps[id(val)])
                            undo.append((h_, attr, val))
            if fault.get("utri_zero") is not None:
                # forced "zero diagonal in the small triangular solve": the idx-th modulus
                # computed by absQsparse reports 0, which sends UtriangleQsparse down its
                # "no solution but least squares" branch (a fault path C04 names)
                state = {"n": 0, "at": int(fault["utri_zero"])}
                seen = set()
                for nm, mod in self.repo_modules():
                    orig = mod.__dict__.get("absQsparse")
                    if orig is None or getattr(orig, "_qsim_wrap", False):
                        continue

                    def forced_abs(A0, A1, A2, A3, _orig=orig, _st=state):
                        r = _orig(A0, A1, A2, A3)
                        _st["n"] += 1
                        if _st["n"] == _st["at"]:
                            return (r[0] * 0.0,) + tuple(r[1:])
                        return r

                    forced_abs._qsim_wrap = True
                    mod.absQsparse = forced_abs
                    undo.append((mod, "absQsparse", orig))
            if fault.get("jitter") is not None:
                jr = np.random.Generator(np.random.PCG64([int(fault["jitter"]), 7]))
                ulp = 2.0 ** -52

                def jit_arr(a):
                    if isinstance(a, np.ndarray) and a.dtype == np.quaternion:
                        f = quaternion.as_float_array(a)
                        return quaternion.as_quat_array(f * (1.0 + jr.uniform(-ulp, ulp, size=f.shape)))
                    if isinstance(a, np.ndarray) and a.dtype.kind == "f":
                        return a * (1.0 + jr.uniform(-ulp, ulp, size=a.shape))
                    if isinstance(a, (float, np.floating)):
                        return type(a)(a * (1.0 + jr.uniform(-ulp, ulp)))
                    return a

                def wrap(orig):
                    def w(*a, **k):
                        r = orig(*a, **k)
                        if isinstance(r, tuple):
                            return tuple(jit_arr(x) for x in r)
                        return jit_arr(r)
                    return w

                wrapped = {}
                for nm, mod in self.repo_modules():
                    for fn in ("quat_matmat", "timesQsparse", "normQsparse"):
                        orig = mod.__dict__.get(fn)
                        if orig is None or getattr(orig, "_qsim_jit", False):
                            continue
                        if id(orig) not in wrapped:
                            w = wrap(orig)
                            w._qsim_jit = True
                            wrapped[id(orig)] = w
                        setattr(mod, fn, wrapped[id(orig)])
                        undo.append((mod, fn, orig))
            yield
        finally:
            for tgt, attr, orig in reversed(undo):
                setattr(tgt, attr, orig)


def arg_digests(args):
    out = []
    for a in args:
        out.append(digest(a))
    return out


class Executor:
    """Executes the steps of a trace inside a run process and records the history."""

    def __init__(self, world, trace):
        self.w = world
        self.trace = trace
        self.objs = {}
        self.objcfg = {}
        self.recs = []
        self.values = {}     # step index -> returned python value (in-memory only)
        self.argvals = {}    # step index -> built argument values
        self.draws = {}      # step index -> list of recorded randn arrays
        self.buffers = {}    # (client, name) -> ndarray reused and refilled in place by a client
        self.cfg_at = {}     # step index -> (class, configuration) of the object at that call
        self.dead_objs = set()   # objects whose constructor raised
        self.seq = 0

    def _target(self, step):
        k = step["k"]
        if k in ("call", "bad") and "obj" in step:
            obj = self.objs[step["obj"]]
            return getattr(obj, step["meth"]), (type(obj).__name__, step["meth"])
        return self.w.resolve(step["fn"]), (None, step["fn"])

    def _arg(self, spec):
        """Build one argument; {"gen": "result", "of": i, "pick": j} hands over (element j of)
        the value an earlier step of this run returned - dataflow between library calls."""
        if isinstance(spec, dict) and spec.get("gen") == "result":
            v = self.values.get(spec["of"])
            if spec.get("pick") is not None and isinstance(v, (tuple, list)):
                v = v[spec["pick"]]
            return v
        return self.w.build_arg(spec)

    def run_op(self, i, step, rng_state=None, record_funcs=False):
        """Execute one call/fn/bad step; returns the record."""
        w = self.w
        fault = step.get("fault") or {}
        rec = {"i": i, "k": step["k"], "seq_invoke": self.seq}
        self.seq += 1
        w.refresh_seams()
        args = [self._arg(s) for s in step.get("args", [])]
        # a client that keeps one buffer and refills it in place between calls: the SAME
        # ndarray object is handed to the library again with new contents
        for j, sp in enumerate(step.get("args", [])):
            if isinstance(sp, dict) and sp.get("buf") and _is_sqm(args[j]):
                # the client keeps ONE sparse quaternion object and replaces its components
                key = (step.get("client"), sp["buf"])
                old = self.buffers.get(key)
                if old is not None and _is_sqm(old) and tuple(old.shape) == tuple(args[j].shape):
                    for comp in ("real", "i", "j", "k"):
                        setattr(old, comp, getattr(args[j], comp))
                    args[j] = old
                else:
                    self.buffers[key] = args[j]
                continue
            if isinstance(sp, dict) and sp.get("buf") and isinstance(args[j], np.ndarray):
                key = (step.get("client"), sp["buf"])
                old = self.buffers.get(key)
                if old is not None and isinstance(old, np.ndarray) and old.shape == args[j].shape \
                        and old.dtype == args[j].dtype and old.flags.writeable:
                    np.copyto(old, args[j])
                    args[j] = old
                else:
                    self.buffers[key] = args[j]
        kwargs = {k: self._arg(s) for k, s in (step.get("kwargs") or {}).items()}
        if step.get("readonly"):
            for a in list(args) + list(kwargs.values()):
                if isinstance(a, np.ndarray):
                    a.flags.writeable = False
        allargs = list(args) + [kwargs[k] for k in sorted(kwargs)]
        before = arg_digests(allargs)
        if rng_state is not None:
            np.random.set_state(rng_state)
        st0 = np.random.get_state()
        rec["rng_before"] = rng_digest(st0)
        obj = self.objs.get(step.get("obj")) if "obj" in step else None
        if obj is not None:
            rec["obj_before"] = digest(_objstate(obj))
            self.cfg_at[i] = self.objcfg.get(step["obj"])     # configuration in force at this call
        w.clock.set_script(fault.get("clock") or step.get("clock"))
        reads0, el0 = w.clock.reads, w.clock.elapsed
        w.rng_log = []
        buf = io.StringIO()
        target, tkey = self._target(step)
        val = None
        with w.fault_context(fault):
            w.monitor.begin(fault.get("line"), record_funcs)
            try:
                with contextlib.redirect_stdout(buf):
                    val = target(*args, **kwargs)
                rec["ok"] = "ret"
            except Exception as e:  # noqa: BLE001 - the outcome is data
                rec["ok"] = "exc"
                rec["exc"] = type(e).__name__
                rec["exc_msg"] = str(e)[:200]
            finally:
                lines, fired, hits = w.monitor.end()
                self.funcmap = w.monitor.funcmap
                w.monitor.funcmap = None
        log, w.rng_log = w.rng_log, None
        st1 = np.random.get_state()
        rec["rng_after"] = rng_digest(st1)
        rec["lines"] = lines
        rec["probes"] = hits
        if fault.get("line") is not None:
            rec["fault_fired"] = bool(fired)
            rec["fault_at"] = list(fired) if fired else None
        if fault.get("linalg_fail"):
            st_ = getattr(w, "linalg_state", None) or {}
            rec["fault_fired"] = st_.get("n", 0) >= st_.get("at", 1)
        rec["clock_reads"] = w.clock.reads - reads0
        rec["sim_s"] = w.clock.elapsed - el0
        rec["draws"] = [list(sh) for (kind, sh, _v) in log if kind == "randn"]
        rec["reseeds"] = sum(1 for (kind, _s, _v) in log if kind == "seed")
        after = arg_digests(allargs)
        rec["args_changed"] = [j for j, (a, b) in enumerate(zip(before, after)) if a != b]
        if obj is not None:
            rec["obj_after"] = digest(_objstate(obj))
        out = buf.getvalue()
        rec["stdout_len"] = len(out)
        rec["stdout_head"] = out[:300]
        if rec["ok"] == "ret":
            rec["digest"] = digest(val, TIMING_IDX.get(tkey, ()))
            rec["summary"] = summarize(val)
        rec["seq_return"] = self.seq
        self.seq += 1
        self.values[i] = val
        self.argvals[i] = allargs
        self.draws[i] = [v for (kind, _s, v) in log if kind == "randn"]
        self._st0 = st0
        return rec

    def run(self, hooks=None):
        """Run all steps; hooks.after_step(executor, i, step, rec) may append violations."""
        viol = []
        states = {}
        # NumPy seeds its global generator from OS entropy at import: put it in a state
        # that is a function of the run seed before the first step (one integer decides
        # everything, DESIGN 2.3)
        self.w._orig_seed((int(self.trace.get("seed") or 0) * 2654435761 + 12345) % (2 ** 32))
        for i, step in enumerate(self.trace["steps"]):
            k = step["k"]
            if k == "new":
                rec = {"i": i, "k": "new", "seq_invoke": self.seq}
                self.seq += 1
                cls = self.w.resolve(step["cls"])
                st0 = np.random.get_state()
                rec["rng_before"] = rng_digest(st0)
                try:
                    with contextlib.redirect_stdout(io.StringIO()):
                        self.objs[step["obj"]] = cls(**step.get("cfg", {}))
                    self.objcfg[step["obj"]] = (step["cls"], step.get("cfg", {}))
                    rec["ok"] = "ret"
                except Exception as e:  # noqa: BLE001
                    rec["ok"] = "exc"
                    rec["exc"] = type(e).__name__
                    rec["exc_msg"] = str(e)[:200]
                    # every configuration the generators produce is inside the documented domain:
                    # a constructor that refuses it is a loud rejection of an in-domain request
                    self.dead_objs.add(step["obj"])
                    if not step.get("may_fail"):
                        viol.append({"oracle": "raised", "step": i,
                                     "detail": f"constructor {step['cls']}({step.get('cfg', {})}) raised "
                                               f"{rec['exc']}: {rec['exc_msg']}"})
                rec["rng_after"] = rng_digest(np.random.get_state())
            elif (step.get("obj") in self.dead_objs) or \
                    (k in ("repeat", "reissue", "mutate") and self.trace["steps"][step["of"]].get("obj") in self.dead_objs):
                # the object of this step was never constructed (reported above): nothing to run
                rec = {"i": i, "k": k, "ok": "skipped", "seq_invoke": self.seq}
                self.seq += 1
                self.recs.append(rec)
                continue
            elif k == "mutate":
                # the caller overwrites (in place) a value the library returned earlier - it is the
                # caller's value; nothing inside the library may depend on it any more
                rec = {"i": i, "k": "mutate", "ok": "ret", "seq_invoke": self.seq}
                self.seq += 1
                v = self.values.get(step["of"])
                targets = [v] if isinstance(v, np.ndarray) else [x for x in (v if isinstance(v, (tuple, list)) else [])
                                                                   if isinstance(x, np.ndarray)]
                n_mut = 0
                for arr in targets:
                    if arr.flags.writeable and arr.size:
                        try:
                            if arr.dtype == np.quaternion:
                                fl = quaternion.as_float_array(arr)
                                fl *= 3.0
                                fl += 0.25
                            elif arr.dtype.kind == "f":
                                arr *= 3.0
                                arr += 0.25
                            n_mut += 1
                        except (ValueError, TypeError):
                            pass
                rec["mutated"] = n_mut
                # the recorded digest of that earlier value no longer applies
                if n_mut and 0 <= step["of"] < len(self.recs):
                    self.recs[step["of"]]["client_mutated"] = True
            elif k == "setattr":
                # a client re-configures a shared solver between calls (plain attribute write);
                # the reference for later calls is a fresh object constructed with the new value
                rec = {"i": i, "k": "setattr", "ok": "ret", "seq_invoke": self.seq}
                self.seq += 1
                obj = self.objs.get(step["obj"])
                if obj is not None:
                    setattr(obj, step["attr"], step["v"])
                    cls_, cfg_ = self.objcfg[step["obj"]]
                    self.objcfg[step["obj"]] = (cls_, dict(cfg_, **{step.get("cfg_key", step["attr"]): step["v"]}))
            elif k == "rng":
                rec = {"i": i, "k": "rng", "seq_invoke": self.seq}
                self.seq += 1
                if step["op"] == "seed":
                    self.w._orig_seed(int(step["v"]))
                elif step["op"] == "draw":
                    self.w._orig_randn(int(step["n"]))
                rec["ok"] = "ret"
                rec["rng_after"] = rng_digest(np.random.get_state())
            elif k == "clock":
                rec = {"i": i, "k": "clock", "ok": "ret", "seq_invoke": self.seq}
                self.seq += 1
                self.w.clock.now += float(step.get("jump", 0.0))
                self.w.clock.elapsed += abs(float(step.get("jump", 0.0)))
            elif k == "repeat":
                src = dict(self.trace["steps"][step["of"]])
                src.pop("fault", None)
                rec = self.run_op(i, src, rng_state=states.get(step["of"]))
                rec["k"] = "repeat"
                rec["of"] = step["of"]
                states[i] = self._st0
            elif k == "reissue":
                # the same call from ANOTHER state of the shared stream (the original state
                # advanced by `shift` draws): a routine may consume the stream, never reset it
                src = dict(self.trace["steps"][step["of"]])
                src.pop("fault", None)
                np.random.set_state(states[step["of"]])
                # at least 1000 Gaussian draws (>= 1400 words of MT19937 output): the state vector is
                # regenerated at least twice, so a routine that merely CONSUMES the stream - even a
                # data-dependent amount of it, as rejection samplers do - cannot end in the state
                # the original execution ended in (a short shift can: pos + fewer words = same pos)
                self.w._orig_randn(1000 + int(step.get("shift", 17)))
                rec = self.run_op(i, src)
                rec["k"] = "reissue"
                rec["of"] = step["of"]
                states[i] = self._st0
            elif k in ("call", "fn", "bad"):
                rec = self.run_op(i, step)
                states[i] = self._st0
                ar = self.trace.get("auto_reissue")
                if ar and k in ("call", "fn") and not step.get("fault") and rec["ok"] == "ret" \
                        and rec["rng_before"] != rec["rng_after"] \
                        and not any(isinstance(a, dict) and a.get("gen") == "result" for a in step.get("args", [])) \
                        and (k == "fn" or (i * 2654435761 + int(self.trace.get("seed") or 0)) % 100 < 100 * float(ar)):
                    # the op touched the shared stream: run it once more from a shifted state and
                    # record where the stream ends up (a consumer moves on, a re-seeder collapses)
                    keep_val, keep_args, keep_draws = self.values.get(i), self.argvals.get(i), self.draws.get(i)
                    after = np.random.get_state()
                    np.random.set_state(states[i])
                    self.w._orig_randn(1011)    # see the `reissue` step for why the shift is long
                    r2 = self.run_op(i, step)
                    rec["auto_reissue"] = {"rng_before": r2["rng_before"], "rng_after": r2["rng_after"]}
                    self.values[i], self.argvals[i], self.draws[i] = keep_val, keep_args, keep_draws
                    np.random.set_state(after)
                    self._st0 = states[i]
            elif k == "sweep":
                rec = self._sweep(i, step, hooks, viol)
            else:
                raise ValueError(f"unknown step kind {k!r}")
            self.recs.append(rec)
            if hooks is not None:
                try:
                    hooks.after_step(self, i, step, rec, viol)
                except Exception as e:  # noqa: BLE001
                    import traceback
                    rec["oracle_error"] = traceback.format_exc()[-1500:]
                    viol.append({"oracle": "HARNESS", "step": i,
                                 "detail": f"oracle raised {type(e).__name__}: {e}"})
        self.states = states
        if hooks is not None:
            try:
                hooks.after_run(self, viol)
            except Exception as e:  # noqa: BLE001
                import traceback
                viol.append({"oracle": "HARNESS", "step": -1,
                             "detail": f"history oracle raised {type(e).__name__}: {e}\n"
                                       + traceback.format_exc()[-1500:]})
        return viol


def _sweep(self, i, step, hooks, viol):
    """Crash-point sweep: a baseline execution of step['call'] on a fresh object gives
    the number K of executed library lines; then the call is re-executed on a fresh
    object once per chosen k with a transient failure raised at the k-th line."""
    import math
    import random
    new_step = {"k": "new", "obj": step["call"]["obj"], "cls": step["cls"], "cfg": step.get("cfg", {})}
    base_call = dict(step["call"])
    base_fault = dict(base_call.get("fault") or {})
    base_fault.pop("line", None)

    def fresh():
        cls = self.w.resolve(step["cls"])
        with contextlib.redirect_stdout(io.StringIO()):
            self.objs[new_step["obj"]] = cls(**new_step["cfg"])
        self.objcfg[new_step["obj"]] = (step["cls"], new_step["cfg"])

    try:
        fresh()
    except Exception as e:  # noqa: BLE001  (an in-domain configuration refused by the constructor)
        viol.append({"oracle": "raised", "step": i, "explicit": [new_step, base_call],
                     "detail": f"constructor {step['cls']}({new_step['cfg']}) raised {type(e).__name__}: {str(e)[:200]}"})
        return {"i": i, "k": "sweep", "ok": "exc", "exc": type(e).__name__, "n_sub": 0, "n_fired": 0,
                "seq_invoke": self.seq, "lines": 0}
    # RNG state every sub-run starts from: the state right AFTER construction, so that a
    # seeded constructor really seeds the stream the call consumes ("quiet schedule")
    st = np.random.get_state()
    brec = self.run_op(i, base_call, rng_state=st, record_funcs=True)
    K = brec["lines"]
    fmap = self.funcmap or []
    if hooks is not None:
        nv = len(viol)
        hooks.after_step(self, i, base_call, brec, viol)
        for v in viol[nv:]:
            v["explicit"] = [new_step, base_call]
    if "picks" in step:
        R = random.Random(f"sweep:{step.get('pick_seed', 0)}")
        focus = set(step.get("focus") or [])
        fidx = [j + 1 for j, f in enumerate(fmap) if f in focus]
        ks = set()
        for _ in range(int(step["picks"])):
            x = R.random()
            if K > 0 and x < 0.2:
                # the tail of an operation is where results are published: bias some crash
                # points to the last line events of the call
                ks.add(R.randint(max(1, K - 80), K))
            elif fidx and x < 0.65:
                ks.add(R.choice(fidx))
            elif K > 0:
                ks.add(R.randint(1, K))
        ks = sorted(ks)
    else:
        lo = int(step.get("from", 1))
        hi = int(step.get("to") or K)
        if step.get("frac"):
            lo = int(math.floor(step["frac"][0] * K)) + 1
            hi = int(math.floor(step["frac"][1] * K))
        ks = list(range(lo, min(hi, K) + 1, int(step.get("stride", 1))))
    rec = {"i": i, "k": "sweep", "ok": "ret", "K": K, "n_sub": len(ks), "n_raised": 0,
           "n_returned": 0, "n_fired": 0, "probes": dict(brec["probes"]), "lines": K,
           "sites": {}, "seq_invoke": brec["seq_invoke"], "digest": brec.get("digest"),
           "rng_before": brec["rng_before"], "rng_after": brec["rng_after"],
           "clock_reads": brec["clock_reads"], "sim_s": brec["sim_s"]}
    outcomes = []
    rec["then"] = []
    if not hasattr(self, "sweep_states"):
        self.sweep_states = {}
    self.sweep_states[i] = st
    for kk in ks:
        fresh()
        call = dict(base_call)
        call["fault"] = dict(base_fault, line=kk)
        srec = self.run_op(i, call, rng_state=st)
        rec["clock_reads"] += srec["clock_reads"]
        rec["sim_s"] += srec["sim_s"]
        if srec.get("fault_fired"):
            rec["n_fired"] += 1
            site = srec["fault_at"][1]
            rec["sites"][site] = rec["sites"].get(site, 0) + 1
        rec["n_raised" if srec["ok"] == "exc" else "n_returned"] += 1
        for nm, c in srec["probes"].items():
            rec["probes"][nm] = rec["probes"].get(nm, 0) + c
        outcomes.append((kk, srec["ok"], srec.get("digest")))
        if hooks is not None:
            nv = len(viol)
            hooks.after_step(self, i, call, srec, viol)
            for v in viol[nv:]:
                v["explicit"] = [new_step, call]
        # crash recovery: fault-free follow-up call(s) on the SAME object after the faulted one
        for tj, then in enumerate(step.get("then") or []):
            trec = self.run_op(i, then, rng_state=st)   # same RNG state as the pristine evaluation
            rec["then"].append({"k": kk, "j": tj, "ok": trec["ok"], "exc": trec.get("exc"),
                                "digest": trec.get("digest"), "rng_after": trec["rng_after"],
                                "summary": trec.get("summary"), "fired": bool(srec.get("fault_fired")),
                                "first_ok": srec["ok"], "args_changed": trec["args_changed"]})
            outcomes.append((kk, "then", tj, trec["ok"], trec.get("digest")))
    h = _h()
    h.update(repr(outcomes).encode())
    rec["sub_digest"] = h.hexdigest()[:24]
    return rec


Executor._sweep = _sweep


def _objstate(obj, depth=0):
    """Canonical view of a solver object's configuration/state (its __dict__)."""
    d = getattr(obj, "__dict__", None)
    if d is None:
        return repr(type(obj))
    out = {}
    for k in sorted(d):
        v = d[k]
        if hasattr(v, "__dict__") and not isinstance(v, np.ndarray) and depth < 2 \
                and type(v).__module__ not in ("builtins", "numpy"):
            out[k] = _objstate(v, depth + 1)
        else:
            out[k] = v
    return out


def reference_eval(world, req):
    """Evaluate one request in THIS (pristine, freshly forked) process: fresh object,
    restored RNG state, default clock, no faults.  Returns an outcome dict."""
    ex = Executor(world, {"steps": []})
    step = dict(req["step"])
    step.pop("fault", None)
    step.pop("clock", None)
    step.pop("readonly", None)
    if "obj" in step:
        cls = world.resolve(req["cls"])
        with contextlib.redirect_stdout(io.StringIO()):
            ex.objs[step["obj"]] = cls(**req.get("cfg", {}))
    if step["k"] in ("repeat", "reissue"):
        step["k"] = "call" if "obj" in step else "fn"
    # producers of `result` arguments run first, each from the RNG state it had in the run
    for pre in req.get("prelude") or []:
        pstep = dict(pre["step"])
        pstep.pop("fault", None)
        ex.run_op(pre["index"], pstep, rng_state=pre.get("rng_state"))
    rec = ex.run_op(10 ** 6, step, rng_state=req.get("rng_state"))
    return {"ok": rec["ok"], "exc": rec.get("exc"), "digest": rec.get("digest"),
            "rng_after": rec["rng_after"], "summary": rec.get("summary")}
